// Harness for the history properties C01-C06 and C16: runs the E1 explorer (mc/e1.hpp) on one
// (class, label type) configuration with the alphabet and clause set of one property.
//
//   e1_props --prop C03 --config dir_int --variant n2 --tier quick --out result.json [--deadline S]
//   e1_props --prop C03 --config dir_int --variant n2 --start 2 --ops ADD:0:1:1:0,CLEAR:0:0:0:0   (replay)
//
// Compiled once per GROUP (-DGROUP=k) so that the template instantiations build in parallel.
#include "../mc/e1.hpp"

using namespace verif;
using namespace BaseGraph;

#ifndef GROUP
#define GROUP -1
#endif

static E1Config makeCfg(const std::string &prop, Family fam, bool directed, bool labelled, const std::string &variant, const std::string &name, const std::string &tier) {
    E1Config c;
    c.name = name + "/" + variant;
    bool small = variant == "n2" || variant == "n2x" || variant == "n2odd";
    // ---- bounds
    if (variant == "n2") { c.startSizes = {0, 1, 2}; c.maxN = 2; c.maxDepth = -1; c.completeKey = true; }
    else if (variant == "n2x") { c.startSizes = {0, 1, 2}; c.maxN = 2; c.maxDepth = -1; c.completeKey = true; alphaVariant() = 1; if (fam == WEIGHTED) weightScale() = 0x1p999; } // unusual values
    else if (variant == "n2odd") { c.startSizes = {1, 2}; c.maxN = 2; c.maxDepth = -1; c.completeKey = true; weightTable() = {0.1, 0.7, 1000000.3}; } // sums depend on the order of summation
    else if (variant == "n2dedup") { c.startSizes = {1, 2}; c.maxN = 2; c.maxDepth = -1; c.completeKey = true; }
    else if (variant == "n1s4") { c.startSizes = {0, 1}; c.maxN = 1; c.maxDepth = -1; c.completeKey = true; }
    else if (variant == "big") { c.startSizes = {}; c.bigSizes = {5, 6}; c.maxN = 6; c.maxDepth = 2; c.completeKey = false; }
    else if (variant == "bigger") { c.startSizes = {}; c.bigSizes = {10, 17, 34}; c.maxN = 34; c.maxDepth = 1; c.completeKey = false; }
    else if (variant == "n2tiny") { c.startSizes = {1, 2}; c.maxN = 2; c.maxDepth = -1; c.completeKey = true; weightScale() = 0x1p-62; } // weights +-2^-60, 2^-62, 0
    else if (variant == "n1") { c.startSizes = {0, 1}; c.maxN = 1; c.maxDepth = -1; c.completeKey = true; }
    else if (variant == "n3" || variant == "n3a" || variant == "n3b") { c.startSizes = {0, 1, 2, 3}; c.maxN = 3; c.maxDepth = -1; c.completeKey = false; }
    else if (variant == "n3d3") { c.startSizes = {2, 3}; c.maxN = 3; c.maxDepth = 3; c.completeKey = false; }
    else if (variant == "n3d4") { c.startSizes = {2, 3}; c.maxN = 3; c.maxDepth = 4; c.completeKey = false; }
    else if (variant == "n3d5") { c.startSizes = {2, 3}; c.maxN = 3; c.maxDepth = 5; c.completeKey = false; }
    else if (variant == "n4d4") { c.startSizes = {3, 4}; c.maxN = 4; c.maxDepth = 4; c.completeKey = false; }
    else if (variant == "n4d5") { c.startSizes = {3, 4}; c.maxN = 4; c.maxDepth = 5; c.completeKey = false; }
    else { fprintf(stderr, "unknown variant %s\n", variant.c_str()); exit(2); }
    // ---- value alphabets
    if (fam == PLAIN && (name == "dir_empty" || name == "und_empty")) { c.addValues = {0}; c.setValues = {0}; }
    else if (fam == PLAIN) {
        if (!labelled) { c.addValues = {0}; c.setValues = {}; }
        else if (small || variant == "n1" || variant == "n1s4") { c.addValues = {0, 1, 2}; c.setValues = {0, 1, 2}; }
        else { c.addValues = {1, 2}; c.setValues = {1, 2}; } // fast key: default label excluded so that an orphan entry is visible
    } else if (fam == MULTI && variant == "n2x") {
        c.addValues = {1, 65536, 3000000000L}; c.setValues = {0, 65536, 3000000000L}; c.removeMultiValues = {1, 65536, 3000000000L}; c.maxValue = 4000000000L;
        c.allowedValues = {1, 65536, 65537, 3000000000L, 3000000001L, 3000065536L};
    } else if (fam == WEIGHTED && variant == "n2odd") {
        c.addValues = {0, 1, 2}; c.setValues = c.addValues;
    } else if (fam == WEIGHTED && variant == "n2x") {
        c.addValues = {-2, 0, 2, 3}; c.setValues = c.addValues; // x 2^999: every partial sum is a small multiple of 2^999, hence exact
    } else if (fam == MULTI) {
        if (small || variant == "n1" || variant == "n1s4") { c.addValues = {0, 1, 2, 3}; c.setValues = {0, 1, 2, 3}; c.removeMultiValues = {0, 1, 2, 3}; c.maxValue = 4; }
        else { c.addValues = {0, 1, 2}; c.setValues = {0, 1, 2}; c.removeMultiValues = {0, 1, 2}; c.maxValue = 2; }
    } else { // WEIGHTED, weights x4: -1.5, 0, 0.25, 2
        if (small || variant == "n1" || variant == "n1s4") { c.addValues = {-6, 0, 1, 8}; }
        else if (variant == "n2tiny") { c.addValues = {-4, 0, 1, 4}; }
        else if (variant == "n3b") { c.addValues = {0, 1}; }
        else { c.addValues = {-6, 8}; }
        c.setValues = c.addValues;
    }
    // ---- operation kinds
    std::set<OpKind> base = {ADD, REMOVE, REMOVE_LOOPS, REMOVE_VERTEX, CLEAR, RESIZE};
    if (fam != WEIGHTED) base.insert(ADD_DEFAULT);
    if ((fam == PLAIN || fam == MULTI) && directed) base.insert(ADD_RECIP);
    // depth-capped / 3-vertex variants use the fast key, which needs the default label out of the alphabet
    if (fam == PLAIN && labelled && !(small || variant == "n1" || variant == "n1s4")) base.erase(ADD_DEFAULT);
    if (prop == "C01" || prop == "C02") {
        c.kinds = base;
    } else if (prop == "C03") {
        c.kinds = base;
        c.kinds.insert(SET_VALUE);
        if (variant == "n2dedup") { // an edge that survives removeDuplicateEdges keeps its label
            c.kinds = {ADD, REMOVE, DEDUP, SET_VALUE};
            c.force = true;
            c.maxCopies = 2;
            c.addValues = {1, 2};
            c.setValues = {1, 2};
        }
    } else if (prop == "C04") {
        c.kinds = base;
        c.kinds.insert(REMOVE_MULTI);
        c.kinds.insert(SET_VALUE);
    } else if (prop == "C05") {
        c.kinds = base;
        c.kinds.insert(SET_VALUE);
    } else if (prop == "C06" || prop == "C08" || prop == "C09" || prop == "C10" || prop == "C13" || prop == "C14" || prop == "C17") {
        c.kinds = base;
        if (labelled) c.kinds.insert(SET_VALUE);
        if (fam == MULTI) c.kinds.insert(REMOVE_MULTI);
        if (prop == "C06") {
            c.allPairs = true;
            c.editNeighbours = true;
        }
    } else if (prop == "C16" || prop == "C17F") {
        c.force = true;
        c.maxCopies = 3;
        if (fam == PLAIN) {
            c.kinds = {ADD, ADD_DEFAULT, REMOVE, DEDUP, CLEAR};
            if (labelled) c.addValues = {1, 2};
        } else if (fam == MULTI) {
            c.kinds = {ADD, DEDUP};
            if (small) c.kinds.insert(ADD_DEFAULT);
            c.addValues = {1, 2};
            c.maxValue = 2;
            if (variant == "n2x") { c.addValues = {3000000000L, 2500000000L}; c.maxValue = 4000000000L; c.allowedValues = {3000000000L, 2500000000L}; c.kinds.erase(ADD_DEFAULT); }
        } else {
            c.kinds = {ADD, DEDUP};
            c.addValues = {-6, 8};
        }
        if (!small || labelled) c.maxCopies = 2;
    } else {
        fprintf(stderr, "unknown property %s\n", prop.c_str());
        exit(2);
    }
    if (small) c.statelessDepth = (prop == "C16") ? 3 : (labelled ? 3 : 4);
    if (small || variant == "n1") c.silentSuffix = 2;
    if (variant == "n1s4") { c.silentSuffix = 4; c.statelessDepth = 4; }
    c.silentReduced = tier != "thorough";
    c.observeEveryTransition = (c.maxDepth >= 0 || c.maxN <= 2) && !(prop == "C16" && tier != "thorough" && c.maxN <= 2 && labelled) && !(prop == "C06" && c.maxN > 2 && tier != "thorough");
    c.mergeDifferential = (small || variant == "n1" || variant == "n2tiny") && !(prop == "C16" && tier != "thorough");
    if (prop == "C16" && tier != "thorough") c.silentSuffixStates = 1500;
    c.ctorStarts = (variant == "n2" || variant == "n2x") && prop != "C16" && prop != "C17F";
    c.rejectedProbe = (small || variant == "n1" || variant == "n1s4" || variant == "n2tiny" || ((variant == "n3" || variant == "n3d3" || variant == "n3d4") && !labelled && fam == PLAIN)) && prop != "C16" && prop != "C17" && prop != "C17F";
    if (variant == "n2x") { c.silentSuffixStates = 300; c.mergeDifferential = false; c.statelessDepth = 2; c.allPairsCap = 600; }
    if (!c.bigSizes.empty()) { c.editNeighbours = false; c.allPairsCap = 300; c.observeEveryTransition = false; }
    if (prop == "C17" || prop == "C17F") { // configuration-matrix runs (C17): the plain search only
        c.silentSuffix = 0;
        c.mergeDifferential = false;
        c.statelessDepth = 2;
        c.observeEveryTransition = false;
    }
    return c;
}

// C16 twin clause: after removeDuplicateEdges, provided every copy of every pair carried the same
// value, the graph equals the one built without force (for multigraphs: each distinct pair once with the
// common multiplicity; see DESIGN.md C16).
template <class G> void installC16(Explorer<G> &ex) {
    ex.extraStepCheck = [&ex](const G &, const Model &, const Op &op, const G &after, const Model &mAfter, ClauseSink &sink) {
        if (op.k != DEDUP) return;
        for (auto &p : mAfter.e)
            if (p.second.vMixed) return;
        ++sink.evaluated;
        const G &twin = ex.freshOf(mAfter);
        if (!(after == twin) || !(twin == after))
            sink.fail("dedup.twin", "graph after removeDuplicateEdges differs from the graph built from the same insertions without force; value " + mAfter.str());
    };
}

template <class G> int runOne(const std::string &prop, Family fam, bool directed, bool labelled, const std::string &name, const Args &args) {
    std::string variant = args.get("variant", "n2");
    E1Config cfg = makeCfg(prop, fam, directed, labelled, variant, name, args.get("tier", "quick"));
    if (args.has("ops")) return replayHistory<G>(cfg, prop, args);
    Reporter rep;
    rep.property = prop;
    rep.config = cfg.name;
    rep.tier = args.get("tier", "quick");
    Explorer<G> ex(cfg, rep, prop);
    if (prop == "C16" || prop == "C17F") installC16(ex);
    ex.run();
    std::string out = args.get("out", "");
    if (!out.empty() && !rep.write(out)) { fprintf(stderr, "cannot write %s\n", out.c_str()); return 2; }
    printf("%s %s: states=%lld transitions=%lld violations=%llu exhaustive=%d wall=%.1fs\n", prop.c_str(), cfg.name.c_str(), rep.counters["states"], rep.counters["transitions"],
           rep.violations(), (int)rep.exhaustive, clock_().elapsed());
    return args.has("exitcode") && rep.violations() ? 1 : 0;
}

int main(int argc, char **argv) {
    Args args(argc, argv);
    (void)clock_();
    installWatchdog(60);
    if (args.has("deadline")) clock_().deadlineS = (double)args.getInt("deadline", 100000);
    std::string prop = args.get("prop", "C01"), config = args.get("config", "");
#define CFG(NAME, TYPE, FAM, DIR, LAB)                                                                                                                                             \
    if (config == NAME) return runOne<TYPE>(prop, FAM, DIR, LAB, NAME, args);
#if GROUP == 0 || GROUP == -1
    CFG("dir_NoLabel", LabeledDirectedGraph<NoLabel>, PLAIN, true, false)
    CFG("und_NoLabel", LabeledUndirectedGraph<NoLabel>, PLAIN, false, false)
#endif
#if GROUP == 1 || GROUP == -1
    CFG("dir_int", LabeledDirectedGraph<int>, PLAIN, true, true)
    CFG("und_int", LabeledUndirectedGraph<int>, PLAIN, false, true)
#endif
#if GROUP == 2 || GROUP == -1
    CFG("dir_string", LabeledDirectedGraph<std::string>, PLAIN, true, true)
    CFG("und_string", LabeledUndirectedGraph<std::string>, PLAIN, false, true)
#endif
#if GROUP == 3 || GROUP == -1
    CFG("dir_empty", LabeledDirectedGraph<EmptyLabel>, PLAIN, true, true)
    CFG("und_empty", LabeledUndirectedGraph<EmptyLabel>, PLAIN, false, true)
    CFG("dir_struct", LabeledDirectedGraph<UserLabel>, PLAIN, true, true)
    CFG("und_struct", LabeledUndirectedGraph<UserLabel>, PLAIN, false, true)
#endif
#if GROUP == 4 || GROUP == -1
    CFG("dir_double", LabeledDirectedGraph<double>, PLAIN, true, true)
    CFG("dir_unsigned", LabeledDirectedGraph<unsigned>, PLAIN, true, true)
    CFG("dir_char", LabeledDirectedGraph<char>, PLAIN, true, true)
#endif
#if GROUP == 5 || GROUP == -1
    CFG("und_double", LabeledUndirectedGraph<double>, PLAIN, false, true)
    CFG("und_unsigned", LabeledUndirectedGraph<unsigned>, PLAIN, false, true)
    CFG("und_char", LabeledUndirectedGraph<char>, PLAIN, false, true)
#endif
#if GROUP == 6 || GROUP == -1
    CFG("dmulti", DirectedMultigraph, MULTI, true, true)
    CFG("umulti", UndirectedMultigraph, MULTI, false, true)
#endif
#if GROUP == 7 || GROUP == -1
    CFG("dweighted", DirectedWeightedGraph, WEIGHTED, true, true)
    CFG("uweighted", UndirectedWeightedGraph, WEIGHTED, false, true)
#endif
    fprintf(stderr, "config %s is not in group %d\n", config.c_str(), GROUP);
    return 2;
}
