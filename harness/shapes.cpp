// C08 (enumeration), C09 (conversions / copies / edge-list constructors), C10 (subgraphs):
// property-specific state clauses evaluated on every state of the E1 search and on E2 shape enumerations.
//
//   shapes --prop C08 --config dir_int --variant n2 --out r.json          (E1 states)
//   shapes --prop C08 --config dir_NoLabel --variant e2n4 --out r.json     (all edge sets on 4 vertices)
//   shapes --prop C09 --config dmulti --variant ctor --out r.json          (edge-list constructors)
#include "../mc/e1.hpp"
#include "../mc/shapes.hpp"

#include "BaseGraph/algorithms/topology.hpp"
#include "BaseGraph/fileio.hpp"

#include <deque>
#include <forward_list>
#include <fstream>
#include <list>
#include <set>
#include <sys/stat.h>

using namespace verif;
using namespace BaseGraph;

#ifndef GROUP
#define GROUP -1
#endif

static std::string g_tmpdir = ".";
static bool g_noFiles = false;
static unsigned long long g_cases = 0, g_nontrivial = 0;

static long fileSize(const std::string &p) {
    struct stat st;
    return stat(p.c_str(), &st) == 0 ? (long)st.st_size : -1;
}
static long countLines(const std::string &p) {
    std::ifstream f(p);
    std::string l;
    long n = 0;
    while (std::getline(f, l)) ++n;
    return n;
}

template <class G> std::string edgeSeqStr(const std::vector<Edge> &v) {
    std::ostringstream o;
    for (auto &e : v) o << "(" << e.first << "," << e.second << ")";
    return o.str();
}

// ------------------------------------------------------------------------------------------- C08
template <class G> void c08State(const G &g, const Model &m, ClauseSink &sink) {
    using T = Tr<G>;
    ++g_cases;
    if (!m.e.empty()) ++g_nontrivial;
    auto guard = [&](const std::string &clause, const std::string &what, auto &&fn) {
        ++sink.evaluated;
        try {
            fn();
        } catch (...) {
            std::string w;
            Outcome oc = classifyCurrentException(&w);
            sink.fail(clause, what + " threw " + outcomeName(oc) + " (" + w + ") on " + m.str());
        }
    };
    // vertices: range-for, pre- and post-increment
    guard("c08.vertices", "vertex iteration", [&] {
        std::vector<unsigned> a, b, want;
        for (unsigned v = 0; v < m.n; ++v) want.push_back(v);
        for (auto v : g) a.push_back(v);
        auto it = g.begin();
        while (it != g.end()) {
            auto old = it++;
            b.push_back(*old);
        }
        if (a != want) sink.fail("c08.vertices", "range-for over the graph yields " + vecToStr(a) + ", expected " + vecToStr(want));
        if (b != want) sink.fail("c08.vertices", "post-increment walk yields " + vecToStr(b) + ", expected " + vecToStr(want));
        if ((g.begin() == g.end()) != (m.n == 0)) sink.fail("c08.vertices", "begin()==end() is wrong for " + m.str());
    });
    // edges: pre-increment (range-for), post-increment, repeated traversal, begin()==end()
    guard("c08.edges", "edge iteration", [&] {
        std::vector<Edge> a, b, c;
        for (auto e : g.edges()) a.push_back(e);
        {
            auto E = g.edges();
            auto it = E.begin();
            size_t guardCount = 0;
            while (it != E.end() && guardCount++ < 10000) {
                auto old = it++;
                b.push_back(*old);
            }
        }
        {
            auto E = g.edges();
            auto it = E.begin();
            size_t guardCount = 0;
            while (it != E.end() && guardCount++ < 10000) {
                c.push_back(*it);
                ++it;
            }
        }
        digest(edgeSeqStr<G>(a));
        if (a != b) sink.fail("c08.edges", "post-increment traversal " + edgeSeqStr<G>(b) + " differs from pre-increment traversal " + edgeSeqStr<G>(a) + " on " + m.str());
        if (a != c) sink.fail("c08.edges", "a second traversal " + edgeSeqStr<G>(c) + " differs from the first " + edgeSeqStr<G>(a) + " on " + m.str());
        auto E = g.edges();
        bool empty = (E.begin() == E.end()), notEmpty = (E.begin() != E.end());
        if (empty != m.e.empty() || notEmpty == empty) sink.fail("c08.edges", "edges().begin()==end() is " + std::to_string(empty) + " (and != is " + std::to_string(notEmpty) + ") on " + m.str());
        // multiset against the model (each edge once; undirected: one orientation)
        std::vector<std::pair<unsigned, unsigned>> got, want;
        for (auto &e : a) got.push_back(m.canon(e.first, e.second));
        for (auto &p : m.e)
            for (int k = 0; k < p.second.copies; ++k) want.push_back(p.first);
        std::sort(got.begin(), got.end());
        std::sort(want.begin(), want.end());
        if (got != want) sink.fail("c08.edges", "edges() yields " + edgeSeqStr<G>(a) + " on " + m.str());
    });
    // everything defined by enumerating edges is defined (and right) on this graph
    if constexpr (T::directed) {
        guard("c08.derived", "getInDegrees", [&] {
            std::vector<size_t> want(m.n, 0);
            for (auto &p : m.e) want[p.first.second] += (T::fam == MULTI ? (size_t)p.second.v : 1) * p.second.copies;
            auto got = g.getInDegrees();
            if (got != want) sink.fail("c08.derived", "getInDegrees() " + vecToStr(got) + ", expected " + vecToStr(want) + " on " + m.str());
        });
        guard("c08.derived", "getAdjacencyMatrix", [&] {
            auto A = g.getAdjacencyMatrix();
            size_t total = 0;
            for (auto &r : A)
                for (auto x : r) total += x;
            size_t want = 0;
            for (auto &p : m.e) want += (T::fam == MULTI ? (size_t)p.second.v : 1) * p.second.copies;
            if (total != want || A.size() != m.n) sink.fail("c08.derived", "getAdjacencyMatrix() sums to " + std::to_string(total) + ", expected " + std::to_string(want) + " on " + m.str());
        });
    } else {
        guard("c08.derived", "getAdjacencyMatrix", [&] {
            auto A = g.getAdjacencyMatrix();
            if (A.size() != m.n) sink.fail("c08.derived", "getAdjacencyMatrix() has " + std::to_string(A.size()) + " rows on " + m.str());
        });
    }
    if constexpr (T::fam == PLAIN) {
        using L = typename T::Label;
        if constexpr (T::directed) {
            guard("c08.derived", "getReversedGraph", [&] {
                auto r = g.getReversedGraph();
                if (r.getEdgeNumber() != g.getEdgeNumber() || r.getSize() != g.getSize()) sink.fail("c08.derived", "getReversedGraph() has the wrong size/edge number on " + m.str());
            });
            guard("c08.derived", "LabeledUndirectedGraph(directed)", [&] {
                LabeledUndirectedGraph<L> u(g);
                std::set<std::pair<unsigned, unsigned>> und;
                for (auto &p : m.e) und.insert({std::min(p.first.first, p.first.second), std::max(p.first.first, p.first.second)});
                if (u.getEdgeNumber() != und.size() || u.getSize() != m.n) sink.fail("c08.derived", "undirected graph constructed from the directed one has the wrong size/edge number on " + m.str());
            });
        } else {
            guard("c08.derived", "getDirectedGraph", [&] {
                auto d = g.getDirectedGraph();
                size_t want = 0;
                for (auto &p : m.e) want += (p.first.first == p.first.second ? 1 : 2) * p.second.copies;
                if (d.getEdgeNumber() != want || d.getSize() != m.n) sink.fail("c08.derived", "getDirectedGraph() has " + std::to_string(d.getEdgeNumber()) + " edges, expected " + std::to_string(want) + " on " + m.str());
            });
        }
    }
    // file writers
    size_t nEdges = 0;
    for (auto &p : m.e) nEdges += p.second.copies;
    std::string ft = g_tmpdir + "/c08.txt", fb = g_tmpdir + "/c08.bin";
    if (g_noFiles) return;
    if constexpr (T::fam == PLAIN) {
        using L = typename T::Label;
        guard("c08.derived", "writeTextEdgeList", [&] {
            if constexpr (T::labelled) io::writeTextEdgeList(g, ft, std::function<std::string(const L &)>([](const L &l) { return labelStr(l); }));
            else io::writeTextEdgeList(g, ft);
            long lines = countLines(ft);
            if (lines != (long)nEdges + 1) sink.fail("c08.derived", "writeTextEdgeList wrote " + std::to_string(lines) + " lines for " + std::to_string(nEdges) + " edges on " + m.str());
        });
        if constexpr (std::is_trivially_copyable<L>::value)
            guard("c08.derived", "writeBinaryEdgeList", [&] {
                io::writeBinaryEdgeList(g, fb);
                long sz = fileSize(fb);
                long rec = 8 + (T::labelled ? (long)sizeof(L) : 0);
                if (sz != (long)nEdges * rec) sink.fail("c08.derived", "writeBinaryEdgeList wrote " + std::to_string(sz) + " bytes for " + std::to_string(nEdges) + " edges on " + m.str());
            });
    } else {
        guard("c08.derived", "writeTextEdgeList(asLabeledGraph)", [&] {
            io::writeTextEdgeList(g.asLabeledGraph(), ft);
            long lines = countLines(ft);
            if (lines != (long)nEdges + 1) sink.fail("c08.derived", "writeTextEdgeList(asLabeledGraph()) wrote " + std::to_string(lines) + " lines for " + std::to_string(nEdges) + " edges on " + m.str());
        });
        guard("c08.derived", "writeBinaryEdgeList(asLabeledGraph)", [&] {
            io::writeBinaryEdgeList(g.asLabeledGraph(), fb);
            long sz = fileSize(fb);
            long rec = 8 + (long)sizeof(typename T::Label);
            if (sz != (long)nEdges * rec) sink.fail("c08.derived", "writeBinaryEdgeList(asLabeledGraph()) wrote " + std::to_string(sz) + " bytes on " + m.str());
        });
    }
}

// ------------------------------------------------------------------------------------------- C09
template <class L> std::string labOf(const Model &m, unsigned i, unsigned j) {
    const Ent *e = m.find(i, j);
    return e ? labelStr(LabelAlpha<L>::value(e->v)) : "<none>";
}

// Copies of every class: copy construction, copy assignment over an empty and over a NON-EMPTY target of another
// size, self-assignment, move construction and move assignment.  Every result has the value of the source (whole
// state oracle + public-API key + ==), and changing the result leaves the source alone.
template <class G> void copySemantics(const G &g, const Model &m, ClauseSink &sink) {
    using T = Tr<G>;
    ++sink.evaluated;
    auto addSome = [](G &t, unsigned i, unsigned j, long v) {
        if constexpr (T::fam == PLAIN) {
            if constexpr (T::labelled) t.addEdge(i, j, LabelAlpha<typename T::Label>::value(v));
            else t.addEdge(i, j);
        } else if constexpr (T::fam == MULTI) t.addMultiedge(i, j, (BaseGraph::EdgeMultiplicity)(v + 2));
        else t.addEdge(i, j, weightOf(v + 1));
    };
    auto target = [&]() { // a graph of another size that already holds edges (and labels) of its own
        G t(m.n + 2);
        addSome(t, 0, m.n + 1, 1);
        addSome(t, m.n + 1, m.n + 1, 0);
        addSome(t, m.n, 0, 1);
        if (m.n > 0) addSome(t, 0, 0, 1);
        return t;
    };
    const std::string want = keyOf(g, true, true), before = keyOf(g, true);
    auto same = [&](const G &x, const std::string &how) {
        if (keyOf(x, true, true) != want || !(x == g) || !(g == x) || (x != g)) { sink.fail("c09.copy", how + " differs from its source " + m.str() + ": got " + keyOf(x, true, true) + ", source " + want); return; }
        ClauseSink inner;
        checkState(x, m, inner);
        for (auto &f : inner.failures) sink.fail("c09.copy", how + " of " + m.str() + ": " + f.second);
    };
    try {
        G c(g);
        same(c, "copy-constructed graph");
        G a(0);
        a = g;
        same(a, "graph assigned over an empty one");
        G t = target();
        t = g;
        same(t, "graph assigned over a non-empty graph of another size");
        G &alias = t;
        t = alias;
        same(t, "self-assigned graph");
        G src1(g);
        G mv(std::move(src1));
        same(mv, "move-constructed graph");
        G src2(g);
        G t2 = target();
        t2 = std::move(src2);
        same(t2, "graph move-assigned over a non-empty graph of another size");
        // independence: change every result, the source keeps its value
        for (G *x : {&c, &a, &t, &mv, &t2}) {
            x->resize(m.n + 1);
            addSome(*x, m.n, 0, 0);
            if (m.n > 0) x->removeVertexFromEdgeList(0);
            x->clearEdges();
        }
        if (keyOf(g, true) != before) sink.fail("c09.copy", "changing copies changed their source " + m.str());
    } catch (...) {
        std::string w;
        Outcome oc = classifyCurrentException(&w);
        sink.fail("c09.copy", "copying/assigning/moving threw " + std::string(outcomeName(oc)) + " (" + w + ") on " + m.str());
    }
}

template <class G> void c09State(const G &g, const Model &m, ClauseSink &sink) {
    using T = Tr<G>;
    copySemantics(g, m, sink);
    if constexpr (T::fam != PLAIN) {
        ++g_cases;
        if (!m.e.empty()) ++g_nontrivial;
    }
    if constexpr (T::fam == PLAIN) {
        using L = typename T::Label;
        using D = LabeledDirectedGraph<L>;
        using U = LabeledUndirectedGraph<L>;
        ++g_cases;
        if (!m.e.empty()) ++g_nontrivial;
        auto guard = [&](const std::string &clause, const std::string &what, auto &&fn) {
            ++sink.evaluated;
            try {
                fn();
            } catch (...) {
                std::string w;
                Outcome oc = classifyCurrentException(&w);
                sink.fail(clause, what + " threw " + outcomeName(oc) + " (" + w + ") on " + m.str());
            }
        };
        // per-pair comparison of a directed result with an expected directed model
        auto sameDirected = [&](const D &got, const Model &want, const std::string &what, const std::string &clause) {
            ClauseSink inner; // full state oracle on the result, all clauses
            checkState(got, want, inner);
            for (auto &f : inner.failures) sink.fail(clause, what + " of " + m.str() + ": " + f.second);
            D exp = fresh<D>(want);
            if (!(got == exp) || !(exp == got)) sink.fail(clause, what + " of " + m.str() + " is not == the independently built expectation " + want.str());
        };
        if constexpr (T::directed) {
            guard("c09.reverse", "getReversedGraph", [&] {
                Model rm;
                rm.directed = true;
                rm.n = m.n;
                for (auto &p : m.e) rm.e[{p.first.second, p.first.first}] = p.second;
                D r = g.getReversedGraph();
                digest(keyOf(r, false));
                sameDirected(r, rm, "getReversedGraph()", "c09.reverse");
                D rr = r.getReversedGraph();
                if (!(rr == g) || !(g == rr)) sink.fail("c09.reverse", "reversing twice does not give a graph equal to the original " + m.str());
            });
            guard("c09.undirectedFromDirected", "LabeledUndirectedGraph(directed)", [&] {
                U u(g);
                // connects exactly the pairs joined in either direction; label = one of the directed labels
                if (u.getSize() != m.n) sink.fail("c09.undirectedFromDirected", "wrong size");
                size_t cnt = 0;
                for (unsigned i = 0; i < m.n; ++i)
                    for (unsigned j = i; j < m.n; ++j) {
                        const Ent *a = m.find(i, j), *b = m.find(j, i);
                        bool want = a || b;
                        if (want) ++cnt;
                        if (u.hasEdge(i, j) != want || u.hasEdge(j, i) != want) {
                            sink.fail("c09.undirectedFromDirected", "undirected graph built from " + m.str() + ": hasEdge(" + std::to_string(i) + "," + std::to_string(j) + ") is " + std::to_string(u.hasEdge(i, j)));
                            continue;
                        }
                        if (want && T::labelled) {
                            L l = u.getEdgeLabel(i, j);
                            bool ok = (a && l == LabelAlpha<L>::value(a->v)) || (b && l == LabelAlpha<L>::value(b->v));
                            if (!ok) sink.fail("c09.undirectedFromDirected", "undirected graph built from " + m.str() + ": label of {" + std::to_string(i) + "," + std::to_string(j) + "} is " + labelStr(l) + ", which is the label of neither directed edge");
                        }
                    }
                if (u.getEdgeNumber() != cnt) sink.fail("c09.undirectedFromDirected", "undirected graph built from " + m.str() + " has " + std::to_string(u.getEdgeNumber()) + " edges, expected " + std::to_string(cnt));
            });
        } else {
            guard("c09.directedFromUndirected", "getDirectedGraph", [&] {
                Model dm;
                dm.directed = true;
                dm.n = m.n;
                for (auto &p : m.e) {
                    dm.e[{p.first.first, p.first.second}] = p.second;
                    dm.e[{p.first.second, p.first.first}] = p.second;
                }
                D d = g.getDirectedGraph();
                digest(keyOf(d, false));
                sameDirected(d, dm, "getDirectedGraph()", "c09.directedFromUndirected");
                U back(d);
                if (!(back == g) || !(g == back)) sink.fail("c09.directedFromUndirected", "undirected -> directed -> undirected is not the identity on " + m.str());
            });
        }
        guard("c09.copy", "copy", [&] {
            G c(g);
            G a(0);
            a = g;
            if (!(c == g) || !(a == g) || keyOf(c, true, true) != keyOf(g, true, true) || keyOf(a, true, true) != keyOf(g, true, true)) sink.fail("c09.copy", "copy differs from its source " + m.str());
            std::string before = keyOf(g, true);
            if (m.n > 0) {
                c.addEdge(0, m.n - 1);
                c.removeEdge(0, 0);
                a.clearEdges();
            }
            c.resize(m.n + 1);
            if (keyOf(g, true) != before) sink.fail("c09.copy", "changing a copy changed its source " + m.str());
        });
    }
}

// Edge-list constructors: every sequence of <= maxLen edges over the index alphabet {0,1,2,4} and the
// value alphabet, in six standard containers; result must equal one-at-a-time insertion.
template <class G, class Elem, bool withSets, class MakeElem, class AddOne> void ctorSequences(Reporter &rep, const std::string &cfgName, int maxLen, const std::vector<long> &values, MakeElem makeElem, AddOne addOne) {
    const unsigned idx[4] = {0, 1, 2, 4};
    struct Item { unsigned i, j; long v; };
    std::vector<Item> items;
    for (unsigned a : idx)
        for (unsigned b : idx)
            for (long v : values) items.push_back({a, b, v});
    std::vector<size_t> seq;
    unsigned long long cases = 0, nontrivial = 0;
    auto check = [&](const std::string &container, const G &built, const std::vector<Item> &order) {
        ++cases;
        if (order.size() >= 2) ++nontrivial;
        breadcrumb(cfgName + " ctor " + container + " len " + std::to_string(order.size()));
        // expectation: default-construct, resize, add the same edges one at a time in iteration order
        G exp(0);
        unsigned mx = 0;
        bool any = false;
        for (auto &it : order) { mx = std::max(mx, std::max(it.i, it.j)); any = true; }
        if (any) exp.resize(mx + 1);
        for (auto &it : order) addOne(exp, it.i, it.j, it.v);
        std::string text;
        for (auto &it : order) text += "(" + std::to_string(it.i) + "," + std::to_string(it.j) + ";" + std::to_string(it.v) + ")";
        size_t wantSize = any ? mx + 1 : 0;
        digest(keyOf(built, false));
        if (built.getSize() != wantSize)
            rep.violation("C09:" + cfgName + ":c09.ctor.size", "constructed from " + container + " [" + text + "]: getSize() " + std::to_string(built.getSize()) + ", expected " + std::to_string(wantSize), "--ctor-case " + container);
        else if (!(built == exp) || !(exp == built) || keyOf(built, true, true) != keyOf(exp, true, true))
            rep.violation("C09:" + cfgName + ":c09.ctor.equal", "constructed from " + container + " [" + text + "] differs from adding the same edges one at a time: key " + keyOf(built, true) + " vs " + keyOf(exp, true),
                          "--ctor-case " + container);
    };
    std::function<void(int)> rec = [&](int len) {
        std::vector<Item> order;
        for (size_t s : seq) order.push_back(items[s]);
        {
            std::vector<Elem> c;
            for (auto &it : order) c.push_back(makeElem(it.i, it.j, it.v));
            check("std::vector", G(c), order);
            std::list<Elem> l(c.begin(), c.end());
            check("std::list", G(l), order);
            std::deque<Elem> d(c.begin(), c.end());
            check("std::deque", G(d), order);
            std::forward_list<Elem> f(c.begin(), c.end());
            check("std::forward_list", G(f), order);
            if constexpr (withSets) {
                std::set<Elem> s(c.begin(), c.end());
                std::multiset<Elem> ms(c.begin(), c.end());
                auto toOrder = [&](const auto &cont) {
                    std::vector<Item> o;
                    for (auto &e : cont) {
                        // recover (i,j,v) of the element in iteration order
                        for (auto &it : items)
                            if (makeElem(it.i, it.j, it.v) == e) { o.push_back(it); break; }
                    }
                    return o;
                };
                check("std::set", G(s), toOrder(s));
                check("std::multiset", G(ms), toOrder(ms));
            }
        }
        if (len == maxLen) return;
        for (size_t k = 0; k < items.size(); ++k) {
            seq.push_back(k);
            rec(len + 1);
            seq.pop_back();
        }
    };
    rec(0);
    rep.count("ctor_cases", (long long)cases);
    g_cases += cases;
    g_nontrivial += nontrivial;
}

// ------------------------------------------------------------------------------------------- C10
// Cheap, non-throwing comparison of a PLAIN graph with a model value (the full oracle is run only when
// this one finds a difference, to produce the detailed message).
template <class G> bool lightSame(const G &g, const Model &m) {
    using T = Tr<G>;
    using L = typename T::Label;
    if (g.getSize() != m.n || g.getEdgeNumber() != m.e.size()) return false;
    for (unsigned i = 0; i < m.n; ++i) {
        size_t deg = 0;
        for (unsigned j = 0; j < m.n; ++j) {
            const Ent *en = m.find(i, j);
            if (g.hasEdge(i, j) != (en != nullptr)) return false;
            if (en) ++deg;
            if constexpr (T::labelled) {
                L want = en ? LabelAlpha<L>::value(en->v) : L();
                if (!(g.getEdgeLabel(i, j, false) == want)) return false;
            }
        }
        if (g.getOutNeighbours(i).size() != deg) return false;
    }
    return true;
}
// one (graph, subset) case of both entry points
template <class G> void c10One(const G &g, const Model &m, const std::unordered_set<VertexIndex> &S, const std::string &st, const std::string &prefix, bool compareFresh, ClauseSink &sink) {
    using T = Tr<G>;
    if constexpr (T::fam == PLAIN) {
        const std::string gname = m.n <= 8 ? m.str() : "a graph on " + std::to_string(m.n) + " vertices with " + std::to_string(m.e.size()) + " edges";
        Model ind;
        ind.directed = T::directed;
        ind.n = m.n;
        for (auto &p : m.e)
            if (S.count(p.first.first) && S.count(p.first.second)) ind.e[p.first] = p.second;
        ++g_cases;
        if (!ind.e.empty() && ind.e.size() != m.e.size()) ++g_nontrivial;
        ++sink.evaluated;
        try {
            G sub = algorithms::getSubgraph(g, S);
            digestNum(sub.getEdgeNumber());
            if (!lightSame(sub, ind) || (compareFresh && !(sub == fresh<G>(ind)))) {
                ClauseSink inner;
                if (m.n <= 40) checkState(sub, ind, inner);
                for (auto &f : inner.failures) sink.fail("c10.subgraph", "getSubgraph(" + gname + ", " + st + ")" + prefix + ": " + f.second);
                if (inner.failures.empty()) sink.fail("c10.subgraph", "getSubgraph(" + gname + ", " + st + ")" + prefix + " is not the induced subgraph (" + std::to_string(sub.getEdgeNumber()) + " edges, expected " + std::to_string(ind.e.size()) + ")");
            }
        } catch (...) {
            sink.fail("c10.subgraph", "getSubgraph(" + gname + ", " + st + ")" + prefix + " threw " + outcomeName(classifyCurrentException()));
        }
        ++sink.evaluated;
        try {
            auto res = algorithms::getSubgraphWithRemap(g, S);
            const G &sub = res.first;
            const auto &map = res.second;
            std::string where = "getSubgraphWithRemap(" + gname + ", " + st + ")" + prefix;
            if (sub.getSize() != S.size()) sink.fail("c10.remap", where + ": returned graph has " + std::to_string(sub.getSize()) + " vertices, expected " + std::to_string(S.size()));
            std::set<unsigned> image;
            bool domOk = map.size() == S.size();
            for (auto &kv : map) {
                if (!S.count(kv.first)) domOk = false;
                image.insert(kv.second);
            }
            for (auto v : S)
                if (!map.count(v)) domOk = false;
            bool imgOk = image.size() == S.size() && (image.empty() || *image.rbegin() == S.size() - 1);
            if (!domOk || !imgOk) {
                sink.fail("c10.remap", where + ": the returned map is not a bijection from S onto 0..|S|-1");
            } else if (sub.getSize() == S.size()) {
                Model mapped;
                mapped.directed = T::directed;
                mapped.n = (unsigned)S.size();
                for (auto &p : ind.e) mapped.e[mapped.canon(map.at(p.first.first), map.at(p.first.second))] = p.second;
                if (!lightSame(sub, mapped) || (compareFresh && !(sub == fresh<G>(mapped)))) {
                    ClauseSink inner;
                    if (m.n <= 40) checkState(sub, mapped, inner);
                    for (auto &f : inner.failures) sink.fail("c10.remap", where + " (compared through the returned map): " + f.second);
                    if (inner.failures.empty()) sink.fail("c10.remap", where + " is not the induced subgraph mapped through the returned map (" + std::to_string(sub.getEdgeNumber()) + " edges, expected " + std::to_string(mapped.e.size()) + ")");
                }
            }
        } catch (...) {
            sink.fail("c10.remap", "getSubgraphWithRemap(" + gname + ", " + st + ")" + prefix + " threw " + outcomeName(classifyCurrentException()));
        }
    }
}

template <class G> void c10State(const G &g, const Model &m, ClauseSink &sink, bool withRejectedPrefix) {
    using T = Tr<G>;
    if constexpr (T::fam == PLAIN) {
        const unsigned n = m.n;
        for (unsigned mask = 0; mask < (1u << n); ++mask) {
            std::unordered_set<VertexIndex> S;
            std::string st = "{";
            for (unsigned v = 0; v < n; ++v)
                if (mask & (1u << v)) { S.insert(v); st += std::to_string(v) + " "; }
            st += "}";
            for (unsigned tmask = 0; tmask < (withRejectedPrefix ? (1u << n) : 1u); ++tmask) {
                std::string prefix;
                if (withRejectedPrefix) {
                    // a rejected call first: the same entry points with a vertex set that contains an
                    // out-of-range member (any subset T of valid vertices plus `n`)
                    std::unordered_set<VertexIndex> B = {n};
                    for (unsigned v = 0; v < n; ++v)
                        if (tmask & (1u << v)) B.insert(v);
                    try { (void)algorithms::getSubgraph(g, B); } catch (const std::out_of_range &) {}
                    try { (void)algorithms::getSubgraphWithRemap(g, B); } catch (const std::out_of_range &) {}
                    prefix = " (after a rejected call with an out-of-range member, mask " + std::to_string(tmask) + ")";
                }
                c10One(g, m, S, st, prefix, tmask == 0, sink);
            }
        }
    }
}

// Larger structured graphs x structured subsets (thresholds in |S| and n), and long call histories on one
// graph (state leaking from one extraction to a later one, e.g. a generation counter that wraps).
template <class G> void c10Big(ClauseSink &sink) {
    using T = Tr<G>;
    if constexpr (T::fam == PLAIN) {
        using L = typename T::Label;
        for (unsigned n : {40u, 300u, 700u}) {
            for (int family = 0; family < 3; ++family) {
                G g(n);
                Model m;
                m.directed = T::directed;
                m.n = n;
                long k = 0;
                auto add = [&](unsigned i, unsigned j) {
                    if (m.find(i, j)) return;
                    long v = T::labelled ? 1 + (k++ % 2) : 0;
                    if constexpr (T::labelled) g.addEdge(i, j, LabelAlpha<L>::value(v));
                    else g.addEdge(i, j);
                    Ent en;
                    en.v = v;
                    m.e[m.canon(i, j)] = en;
                };
                if (family == 0) { for (unsigned i = 0; i + 1 < n; ++i) add(i, i + 1); add(n - 1, 0); add(n / 2, n / 2); }
                if (family == 1) { for (unsigned i = 0; i + 1 < n; ++i) add(n - 1, i); for (unsigned i = 1; i < n; i += 3) add(i, 0); }
                if (family == 2) { for (unsigned i = 0; i < n; ++i) { add(i, (i * 7 + 3) % n); add((i * 5 + 1) % n, i); if (i % 11 == 0) add(i, i); } }
                breadcrumb("C10 big n=" + std::to_string(n) + " family " + std::to_string(family));
                std::vector<std::pair<std::string, std::unordered_set<VertexIndex>>> subsets;
                auto range = [&](const std::string &name, unsigned from, unsigned to, unsigned step) {
                    std::unordered_set<VertexIndex> S;
                    for (unsigned v = from; v < to && v < n; v += step) S.insert(v);
                    subsets.emplace_back(name, S);
                };
                range("all vertices", 0, n, 1);
                range("all but vertex 0", 1, n, 1);
                range("the first 255", 0, 255, 1);
                range("the first 256", 0, 256, 1);
                range("the first 257", 0, 257, 1);
                range("the last 258", n > 258 ? n - 258 : 0, n, 1);
                range("even vertices", 0, n, 2);
                range("every third vertex from 1", 1, n, 3);
                range("vertices 30..39", 30, 40, 1);
                {   // inserted in descending order (another bucket / iteration order of the unordered_set)
                    std::unordered_set<VertexIndex> S;
                    for (unsigned v = n; v-- > n / 3;) S.insert(v);
                    subsets.emplace_back("the upper two thirds, inserted descending", S);
                }
                for (auto &ss : subsets) c10One(g, m, ss.second, "{" + ss.first + ", |S|=" + std::to_string(ss.second.size()) + "}", "", n <= 40, sink);
            }
        }
        // long histories: mark w once, then hundreds of extractions that avoid w but contain a neighbour of w
        G g(5);
        Model m;
        m.directed = T::directed;
        m.n = 5;
        long k = 0;
        for (unsigned i = 0; i < 5; ++i)
            for (unsigned j = 0; j < 5; ++j) {
                if (m.find(i, j)) continue;
                long v = T::labelled ? 1 + (k++ % 2) : 0;
                if constexpr (T::labelled) g.addEdge(i, j, LabelAlpha<L>::value(v));
                else g.addEdge(i, j);
                Ent en;
                en.v = v;
                m.e[m.canon(i, j)] = en;
            }
        for (unsigned w = 0; w < 5; ++w)
            for (unsigned u = 0; u < 5; ++u) {
                if (u == w) continue;
                breadcrumb("C10 long history w=" + std::to_string(w) + " u=" + std::to_string(u));
                c10One(g, m, {w, u}, "{" + std::to_string(w) + " " + std::to_string(u) + "}", "", false, sink);
                for (int rep = 0; rep < 700; ++rep) {
                    unsigned x = (u + 1 + rep % 3) % 5;
                    if (x == w) x = u;
                    std::unordered_set<VertexIndex> S = {u, x};
                    c10One(g, m, S, "{" + std::to_string(u) + " " + std::to_string(x) + "}", " (call " + std::to_string(rep + 1) + " after an extraction that contained vertex " + std::to_string(w) + ")", false, sink);
                    if (!sink.failures.empty()) return;
                }
            }
    }
}

// Longer constructor inputs (thresholds in the length of the container, e.g. sort implementations that
// switch algorithm at 16 elements): patterned sequences with repeated pairs carrying different values.
template <class G, class Elem, class MakeElem, class AddOne> void ctorLong(Reporter &rep, const std::string &cfgName, const std::vector<long> &values, MakeElem makeElem, AddOne addOne) {
    struct Item { unsigned i, j; long v; };
    unsigned long long cases = 0;
    for (unsigned len : {15u, 16u, 17u, 18u, 31u, 32u, 33u, 64u, 65u, 129u, 300u})
        for (unsigned pattern = 0; pattern < 6; ++pattern) {
            std::vector<Item> order;
            for (unsigned k = 0; k < len; ++k) {
                unsigned a, b;
                switch (pattern) {
                case 0: a = k % 3; b = (k * 2) % 3; break;
                case 1: a = (k * 5) % 7; b = (k * 3) % 7; break;
                case 2: a = (len - k) % 4; b = k % 2; break;
                case 3: a = k % 40; b = (k + 1) % 40; break;
                case 4: a = (k * k) % 5; b = (k * 7 + 1) % 5; break;
                default: a = 0; b = k % 2; break;
                }
                order.push_back({a, b, values[(k / (pattern == 5 ? 1 : 2) + pattern) % values.size()]});
            }
            std::vector<Elem> c;
            for (auto &it : order) c.push_back(makeElem(it.i, it.j, it.v));
            auto check = [&](const std::string &container, const G &built) {
                ++cases;
                breadcrumb(cfgName + " long ctor " + container + " len " + std::to_string(len) + " pattern " + std::to_string(pattern));
                G exp(0);
                unsigned mx = 0;
                for (auto &it : order) mx = std::max(mx, std::max(it.i, it.j));
                exp.resize(mx + 1);
                for (auto &it : order) addOne(exp, it.i, it.j, it.v);
                digest(keyOf(built, false));
                if (built.getSize() != exp.getSize() || !(built == exp) || !(exp == built) || keyOf(built, false, true) != keyOf(exp, false, true))
                    rep.violation("C09:" + cfgName + ":c09.ctor.long", "constructed from a " + container + " of " + std::to_string(len) + " entries (pattern " + std::to_string(pattern) + ", repeated pairs with different values) differs from adding the same edges one at a time: key " +
                                                                           keyOf(built, false).substr(0, 300) + " vs " + keyOf(exp, false).substr(0, 300),
                                  "--variant ctorlong");
            };
            check("std::vector", G(c));
            std::list<Elem> l(c.begin(), c.end());
            check("std::list", G(l));
            std::deque<Elem> d(c.begin(), c.end());
            check("std::deque", G(d));
            std::forward_list<Elem> f(c.begin(), c.end());
            check("std::forward_list", G(f));
        }
    rep.count("ctor_long_cases", (long long)cases);
    g_cases += cases;
    g_nontrivial += cases;
}

// ----------------------------------------------------------------------------------------- driver
template <class G> int runOne(const std::string &prop, Family fam, bool directed, bool labelled, const std::string &name, const Args &args) {
    using T = Tr<G>;
    std::string variant = args.get("variant", "n2");
    Reporter rep;
    rep.property = prop;
    rep.config = name + "/" + variant;
    rep.tier = args.get("tier", "quick");
    auto stateHook = [&](const G &g, const Model &m, ClauseSink &sink) {
        if (prop == "C08") c08State(g, m, sink);
        else if (prop == "C09") c09State(g, m, sink);
        else if (prop == "C10") c10State(g, m, sink, true);
    };
    if (variant == "huge") {
        // a hub with several hundred thousand lower-index neighbours (and the mirror shapes): traversal must
        // neither skip nor run out of stack
        unsigned spokes = (unsigned)args.getInt("spokes", 400000);
        for (int shape = 0; shape < 3; ++shape) {
            unsigned n = spokes + 1;
            G g(n);
            size_t want = 0;
            auto add = [&](unsigned i, unsigned j) {
                if constexpr (T::fam == PLAIN) g.addEdge(i, j, true);
                else if constexpr (T::fam == MULTI) g.addMultiedge(i, j, 2, true);
                else g.addEdge(i, j, 0.5, true);
                ++want;
            };
            // (force=true only avoids the quadratic existence scan while BUILDING; no pair is inserted twice)
            if (shape == 0) for (unsigned i = 0; i < spokes; ++i) add(n - 1, i);          // hub = last vertex
            if (shape == 1) for (unsigned i = 1; i <= spokes; ++i) add(0, i);              // hub = first vertex
            if (shape == 2) for (unsigned i = 0; i + 1 < n; i += 2) add(i + 1, i);         // every edge names the larger vertex first
            breadcrumb(rep.config + " huge shape " + std::to_string(shape));
            ++g_cases;
            ++g_nontrivial;
            size_t a = 0, b = 0, vcount = 0;
            unsigned long long checksum = 0;
            for (auto e : g.edges()) { ++a; checksum += e.first * 3ull + e.second; }
            {
                auto E = g.edges();
                auto it = E.begin();
                while (it != E.end()) { auto old = it++; checksum -= (*old).first * 3ull + (*old).second; ++b; }
            }
            for (auto v : g) { (void)v; ++vcount; }
            digestNum(a);
            if (a != want || b != want || checksum != 0 || vcount != n)
                rep.violation("C08:" + rep.config + ":c08.huge", "graph with " + std::to_string(n) + " vertices and " + std::to_string(want) + " edges (shape " + std::to_string(shape) + "): range-for yields " + std::to_string(a) + " edges, post-increment walk " +
                                                                   std::to_string(b) + ", vertices " + std::to_string(vcount), "--variant huge");
        }
    } else if (variant == "ctorlong") {
        if constexpr (T::fam == PLAIN) {
            using L = typename T::Label;
            if constexpr (!T::labelled) ctorLong<G, Edge>(rep, rep.config, {0}, [](unsigned i, unsigned j, long) { return Edge{i, j}; }, [](G &g, unsigned i, unsigned j, long) { g.addEdge(i, j); });
            else ctorLong<G, LabeledEdge<L>>(rep, rep.config, {1, 2}, [](unsigned i, unsigned j, long v) { return LabeledEdge<L>{i, j, LabelAlpha<L>::value(v)}; }, [](G &g, unsigned i, unsigned j, long v) { g.addEdge(i, j, LabelAlpha<L>::value(v)); });
        } else if constexpr (T::fam == MULTI) {
            ctorLong<G, LabeledEdge<EdgeMultiplicity>>(rep, rep.config, {1, 3}, [](unsigned i, unsigned j, long v) { return LabeledEdge<EdgeMultiplicity>{i, j, (EdgeMultiplicity)v}; }, [](G &g, unsigned i, unsigned j, long v) { g.addMultiedge(i, j, (EdgeMultiplicity)v); });
        } else {
            ctorLong<G, LabeledEdge<EdgeWeight>>(rep, rep.config, {-6, 8}, [](unsigned i, unsigned j, long v) { return LabeledEdge<EdgeWeight>{i, j, weightOf(v)}; }, [](G &g, unsigned i, unsigned j, long v) { g.addEdge(i, j, weightOf(v)); });
        }
    } else if (variant == "big") {
        ClauseSink sink;
        sink.property = prop;
        if (prop == "C10") c10Big<G>(sink);
        else if (prop == "C09" || prop == "C08") {
            // conversions / iteration on larger graphs (26 and 40 vertices: complete, patterned, star)
            if constexpr (T::fam == PLAIN) {
                using L = typename T::Label;
                for (unsigned n : {26u, 40u})
                    for (int family = 0; family < 3; ++family) {
                        G g(n);
                        Model m;
                        m.directed = T::directed;
                        m.n = n;
                        long k = 0;
                        for (unsigned i = 0; i < n; ++i)
                            for (unsigned j = 0; j < n; ++j) {
                                bool in = family == 0 || (family == 1 && (i * 7 + j * 3) % 5 == 0) || (family == 2 && (i == n - 1 || j == 0));
                                if (!in || m.find(i, j)) continue;
                                long v = T::labelled ? 1 + (k++ % 2) : 0;
                                if constexpr (T::labelled) g.addEdge(i, j, LabelAlpha<L>::value(v));
                                else g.addEdge(i, j);
                                Ent en;
                                en.v = v;
                                m.e[m.canon(i, j)] = en;
                            }
                        breadcrumb(rep.config + " big n=" + std::to_string(n) + " family " + std::to_string(family));
                        if (prop == "C09") c09State(g, m, sink);
                        else c08State(g, m, sink);
                    }
            }
        }
        for (auto &f : sink.failures) rep.violation(prop + ":" + rep.config + ":" + f.first, f.second, "--variant big");
    } else if (variant == "ctor") {
        // edge-list constructors (C09)
        int maxLen = args.getInt("len", 3);
        if constexpr (T::fam == PLAIN) {
            using L = typename T::Label;
            if constexpr (!T::labelled)
                ctorSequences<G, Edge, true>(rep, rep.config, maxLen, {0}, [](unsigned i, unsigned j, long) { return Edge{i, j}; }, [](G &g, unsigned i, unsigned j, long) { g.addEdge(i, j); });
            else
                ctorSequences<G, LabeledEdge<L>, !std::is_same<L, UserLabel>::value>(rep, rep.config, maxLen, {1, 2}, [](unsigned i, unsigned j, long v) { return LabeledEdge<L>{i, j, LabelAlpha<L>::value(v)}; },
                                                 [](G &g, unsigned i, unsigned j, long v) { g.addEdge(i, j, LabelAlpha<L>::value(v)); });
        } else if constexpr (T::fam == MULTI) {
            ctorSequences<G, LabeledEdge<EdgeMultiplicity>, true>(rep, rep.config, maxLen, {0, 1, 3}, [](unsigned i, unsigned j, long v) { return LabeledEdge<EdgeMultiplicity>{i, j, (EdgeMultiplicity)v}; },
                                                            [](G &g, unsigned i, unsigned j, long v) { g.addMultiedge(i, j, (EdgeMultiplicity)v); });
        } else {
            ctorSequences<G, LabeledEdge<EdgeWeight>, true>(rep, rep.config, maxLen, {-6, 0, 8}, [](unsigned i, unsigned j, long v) { return LabeledEdge<EdgeWeight>{i, j, weightOf(v)}; },
                                                      [](G &g, unsigned i, unsigned j, long v) { g.addEdge(i, j, weightOf(v)); });
        }
    } else if (variant.rfind("e2n", 0) == 0) {
        // all edge sets on n vertices, three insertion orders
        unsigned n = (unsigned)atoi(variant.c_str() + 3);
        bool loops = !args.has("noloops");
        auto pairs = allPairs(n, T::directed, loops);
        unsigned long total = 1ul << pairs.size();
        unsigned long long shapes = 0;
        for (unsigned long mask = 0; mask < total; ++mask) {
            if (clock_().expired()) { rep.cap(rep.config + ": deadline at mask " + std::to_string(mask)); break; }
            for (int order = 0; order < (T::directed ? 2 : 3); ++order) {
                G g(0);
                Model m;
                buildFromMask(n, pairs, mask, order, [&](size_t k) { return fam == PLAIN ? (labelled ? 1 + (long)(k % 2) : 0) : (fam == MULTI ? 1 + (long)(k % 3) : (long)(k % 2 ? 8 : -6)); }, g, m);
                breadcrumb(rep.config + " mask " + std::to_string(mask) + " order " + std::to_string(order));
                ClauseSink sink;
                sink.property = prop;
                if (prop == "C10") c10State(g, m, sink, false);
                else stateHook(g, m, sink);
                ++shapes;
                for (auto &f : sink.failures)
                    rep.violation(prop + ":" + rep.config + ":" + f.first, "graph on " + std::to_string(n) + " vertices with edges " + maskText(pairs, mask) + " inserted in " + (order == 0 ? "ascending" : (order == 1 ? "descending" : "ascending, swapped-orientation") ) + " order: " + f.second,
                                  "--mask " + std::to_string(mask) + " --order " + std::to_string(order));
                if (rep.violations() > 2000) break;
            }
            if (rep.violations() > 2000) { rep.cap("stopped after 2000 clause failures"); break; }
        }
        rep.count("shapes", (long long)shapes);
        JObj s;
        s.str("config", rep.config).str("example", "n=" + std::to_string(n) + " edges " + maskText(pairs, total / 3) + " (mask " + std::to_string(total / 3) + "), built ascending and descending");
        rep.sample(s.render());
    } else {
        E1Config cfg;
        cfg.name = name + "/" + variant;
        if (variant == "n2") { cfg.startSizes = {0, 1, 2}; cfg.maxN = 2; cfg.maxDepth = -1; cfg.completeKey = true; }
        else if (variant == "n3") { cfg.startSizes = {0, 1, 2, 3}; cfg.maxN = 3; cfg.maxDepth = -1; cfg.completeKey = false; }
        else if (variant == "n3d3") { cfg.startSizes = {2, 3}; cfg.maxN = 3; cfg.maxDepth = 3; cfg.completeKey = false; }
        else if (variant == "n3d4") { cfg.startSizes = {2, 3}; cfg.maxN = 3; cfg.maxDepth = 4; cfg.completeKey = false; }
        else { fprintf(stderr, "unknown variant %s\n", variant.c_str()); return 2; }
        cfg.kinds = {ADD, REMOVE, REMOVE_LOOPS, REMOVE_VERTEX, CLEAR, RESIZE};
        if (fam != WEIGHTED && !(fam == PLAIN && labelled && variant != "n2")) cfg.kinds.insert(ADD_DEFAULT); // fast key: default label kept out of 3-vertex labelled searches
        if (labelled) cfg.kinds.insert(SET_VALUE);
        if (fam == PLAIN) { cfg.addValues = labelled ? std::vector<long>{1, 2} : std::vector<long>{0}; cfg.setValues = cfg.addValues; }
        else if (fam == MULTI) { cfg.addValues = {1, 2}; cfg.setValues = {0, 2}; cfg.maxValue = 2; }
        else { cfg.addValues = {-6, 8}; cfg.setValues = {8}; }
        (void)directed;
        cfg.observeEveryTransition = (variant == "n2" || (cfg.maxDepth >= 0 && prop != "C10"));
        Explorer<G> ex(cfg, rep, prop);
        ex.extraStateCheck = stateHook;
        if (args.has("ops")) return replayHistory<G>(cfg, prop, args, ex.extraStateCheck);
        ex.run();
    }
    rep.count("cases", (long long)g_cases);
    rep.count("nontrivial_cases", (long long)g_nontrivial);
    std::string out = args.get("out", "");
    if (!out.empty() && !rep.write(out)) return 2;
    printf("%s %s: cases=%llu violations=%llu exhaustive=%d wall=%.1fs\n", prop.c_str(), rep.config.c_str(), g_cases, rep.violations(), (int)rep.exhaustive, clock_().elapsed());
    return args.has("exitcode") && rep.violations() ? 1 : 0;
}

int main(int argc, char **argv) {
    Args args(argc, argv);
    (void)clock_();
    installWatchdog(60);
    if (args.has("deadline")) clock_().deadlineS = (double)args.getInt("deadline", 100000);
    g_tmpdir = args.get("tmpdir", ".");
    g_noFiles = args.has("nofiles");
    std::string prop = args.get("prop", "C08"), config = args.get("config", "");
#define CFG(NAME, TYPE, FAM, DIR, LAB)                                                                                                                                             \
    if (config == NAME) return runOne<TYPE>(prop, FAM, DIR, LAB, NAME, args);
#if GROUP == 0 || GROUP == -1
    CFG("dir_NoLabel", LabeledDirectedGraph<NoLabel>, PLAIN, true, false)
#endif
#if GROUP == 1 || GROUP == -1
    CFG("und_NoLabel", LabeledUndirectedGraph<NoLabel>, PLAIN, false, false)
#endif
#if GROUP == 2 || GROUP == -1
    CFG("dir_int", LabeledDirectedGraph<int>, PLAIN, true, true)
#endif
#if GROUP == 3 || GROUP == -1
    CFG("und_int", LabeledUndirectedGraph<int>, PLAIN, false, true)
#endif
#if GROUP == 4 || GROUP == -1
    CFG("dir_string", LabeledDirectedGraph<std::string>, PLAIN, true, true)
#endif
#if GROUP == 5 || GROUP == -1
    CFG("und_string", LabeledUndirectedGraph<std::string>, PLAIN, false, true)
#endif
#if GROUP == 6 || GROUP == -1
    CFG("dmulti", DirectedMultigraph, MULTI, true, true)
    CFG("umulti", UndirectedMultigraph, MULTI, false, true)
#endif
#if GROUP == 7 || GROUP == -1
    CFG("dweighted", DirectedWeightedGraph, WEIGHTED, true, true)
    CFG("uweighted", UndirectedWeightedGraph, WEIGHTED, false, true)
#endif
#if GROUP == 8 || GROUP == -1
    CFG("dir_struct", LabeledDirectedGraph<UserLabel>, PLAIN, true, true)
    CFG("und_struct", LabeledUndirectedGraph<UserLabel>, PLAIN, false, true)
#endif
    fprintf(stderr, "config %s is not in group %d\n", config.c_str(), GROUP);
    return 2;
}
