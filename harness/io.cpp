// C13 (text edge lists), C14 (binary edge lists), C15 (truncated / malformed files).
//
//   io --prop C13 --part roundtrip --config dir_string --tmpdir D --out r.json
//   io --prop C13 --part format|names --tmpdir D ...
//   io --prop C14 --part roundtrip --config und_i64 ...      io --prop C14 --part unopenable
//   io --prop C15 --part cuts --config dir_i32 ...           io --prop C15 --part text --len 3 ...   io --prop C15 --part bytes
//
// Graph source for the round trips: every sequence of <= K insertions of distinct (canonical) pairs on
// 3 vertices x every label assignment from a 3-value alphabet (incl. the default value) - i.e. every small
// graph in every neighbour-list order - in graphs of size 0..4 (trailing isolated vertices).
#include "../mc/model.hpp"

#include "BaseGraph/fileio.hpp"

#include <fstream>
#include <sys/stat.h>

using namespace verif;
using namespace BaseGraph;

#ifndef GROUP
#define GROUP -1
#endif

static std::string g_tmpdir = ".";
static unsigned long long g_cases = 0, g_nontrivial = 0;
static Reporter *g_rep = nullptr;
static std::string g_prop, g_cfg;

static std::string readFile(const std::string &p) {
    std::ifstream f(p, std::ios::binary);
    std::ostringstream o;
    o << f.rdbuf();
    return o.str();
}
static void writeFile(const std::string &p, const std::string &bytes) {
    std::ofstream f(p, std::ios::binary | std::ios::trunc);
    f.write(bytes.data(), (std::streamsize)bytes.size());
}
static std::string hex(const std::string &b) {
    static const char *d = "0123456789abcdef";
    std::string o;
    for (unsigned char c : b) { o += d[c >> 4]; o += d[c & 15]; }
    return o;
}
static std::string unhex(const std::string &h) {
    std::string o;
    for (size_t i = 0; i + 1 < h.size(); i += 2) o += (char)strtol(h.substr(i, 2).c_str(), nullptr, 16);
    return o;
}
static std::string visible(const std::string &s) { return jsonEscape(s); }
static void fail(const std::string &clause, const std::string &detail, const std::string &replay) { g_rep->violation(g_prop + ":" + g_cfg + ":" + clause, detail, replay); }

// ------------------------------------------------------------------------------- graph sequences
struct Ins { unsigned i, j; long v; bool force = false; };
template <class G> void buildSeq(unsigned n, const std::vector<Ins> &seq, G &g, Model &m) {
    using T = Tr<G>;
    using L = typename T::Label;
    g = G(n);
    m = Model();
    m.directed = T::directed;
    m.n = n;
    for (auto &s : seq) {
        if constexpr (T::labelled) g.addEdge(s.i, s.j, LabelAlpha<L>::value(s.v), s.force);
        else g.addEdge(s.i, s.j, s.force);
        if (s.force && m.e.count(m.canon(s.i, s.j))) { m.e[m.canon(s.i, s.j)].copies += 1; continue; }
        Ent en;
        en.v = s.v;
        m.e[m.canon(s.i, s.j)] = en;
    }
}
static size_t copiesIn(const Model &m) {
    size_t c = 0;
    for (auto &p : m.e) c += (size_t)p.second.copies;
    return c;
}
static bool hasDuplicates(const Model &m) { return copiesIn(m) != m.e.size(); }
// "equals the original": operator== both ways; for a graph holding forced parallel copies of a pair (C16) the
// comparison is made on the public-API key with neighbour lists sorted, so that it does not depend on what
// operator== means for such graphs
template <class G> bool sameGraph(const G &a, const G &b, const Model &m) {
    if (hasDuplicates(m)) return keyOf(a, true, true) == keyOf(b, true, true);
    return a == b && b == a;
}
static std::string seqText(const std::vector<Ins> &seq) {
    std::string s;
    for (auto &x : seq) s += std::to_string(x.i) + ":" + std::to_string(x.j) + ":" + std::to_string(x.v) + (x.force ? ":f" : "") + ",";
    return s;
}
// all sequences of <= maxLen distinct pairs over nv vertices with all value assignments
// withDuplicate: additionally every such sequence of fewer than maxLen entries followed by ONE forced re-insertion
// of a pair it already holds (same value; for undirected graphs under both namings of the pair) - a graph with a
// parallel edge
template <class G, class F> void forAllSequences(unsigned nv, int maxLen, int nValues, F f, bool withDuplicate = false) {
    using T = Tr<G>;
    std::vector<std::pair<unsigned, unsigned>> pairs;
    for (unsigned i = 0; i < nv; ++i)
        for (unsigned j = 0; j < nv; ++j) pairs.emplace_back(i, j); // undirected: both namings of a pair are distinct insert calls
    std::vector<Ins> seq;
    std::set<std::pair<unsigned, unsigned>> used;
    std::function<void()> rec = [&]() {
        f(seq);
        if (withDuplicate && !seq.empty() && (int)seq.size() < maxLen) {
            std::vector<Ins> base = seq;
            for (auto &e : base)
                for (int swap = 0; swap < ((!T::directed && e.i != e.j) ? 2 : 1); ++swap) {
                    seq.push_back({swap ? e.j : e.i, swap ? e.i : e.j, e.v, true});
                    f(seq);
                    seq.pop_back();
                }
        }
        if ((int)seq.size() == maxLen) return;
        for (auto &p : pairs) {
            auto c = (T::directed || p.first <= p.second) ? p : std::make_pair(p.second, p.first);
            if (used.count(c)) continue;
            used.insert(c);
            for (long v = 0; v < nValues; ++v) {
                seq.push_back({p.first, p.second, v});
                rec();
                seq.pop_back();
            }
            used.erase(c);
        }
    };
    rec();
}

// -------------------------------------------------------------------------------- text codecs
template <class L> struct Codec;
template <> struct Codec<int> {
    static std::string to(const int &l) { return std::to_string(l); }
    static int from(const std::string &s) { return std::stoi(s); }
};
template <> struct Codec<double> {
    static std::string to(const double &l) { return std::to_string(l); }
    static double from(const std::string &s) { return std::stod(s); }
};
template <> struct Codec<std::string> {
    static std::string to(const std::string &l) { return l; }
    static std::string from(const std::string &s) { return s; }
};
template <> struct Codec<NoLabel> {
    static std::string to(const NoLabel &) { return ""; }
    static NoLabel from(const std::string &) { return NoLabel(); }
};

template <class G> size_t expectedLoadedSize(const Model &m) {
    size_t s = 0;
    for (auto &p : m.e) s = std::max<size_t>(s, std::max(p.first.first, p.first.second) + 1);
    return s;
}

// C13 (a): write, load, compare
template <template <class...> class GT, class L> void c13RoundTrip(int maxLen) {
    using G = GT<L>;
    using T = Tr<G>;
    const std::string file = g_tmpdir + "/rt.txt";
    for (unsigned n : {0u, 3u, 4u}) {
        forAllSequences<G>(n == 0 ? 0 : 3, n == 0 ? 0 : maxLen, T::labelled ? 3 : 1, [&](const std::vector<Ins> &seq) {
            G g(0);
            Model m;
            buildSeq(n, seq, g, m);
            ++g_cases;
            if (seq.size() >= 2) ++g_nontrivial;
            std::string replay = "--part one --n " + std::to_string(n) + " --seq " + (seq.empty() ? "-" : seqText(seq));
            breadcrumb(g_cfg + " text round trip n=" + std::to_string(n) + " seq " + seqText(seq));
            for (int useDefault = 0; useDefault < 2; ++useDefault) {
                // writer with an explicit codec, and (arithmetic labels / NoLabel) with its default argument
                if (useDefault && std::is_same<L, std::string>::value) continue;
                try {
                    if constexpr (!T::labelled) {
                        if (useDefault) io::writeTextEdgeList(g, file);
                        else io::writeTextEdgeList(g, file, std::function<std::string(const NoLabel &)>([](const NoLabel &) { return std::string(); }));
                    } else if constexpr (std::is_same<L, std::string>::value) {
                        io::writeTextEdgeList(g, file, std::function<std::string(const L &)>(Codec<L>::to));
                    } else {
                        if (useDefault) io::writeTextEdgeList(g, file);
                        else io::writeTextEdgeList(g, file, std::function<std::string(const L &)>(Codec<L>::to));
                    }
                } catch (...) {
                    fail("c13.write", "writeTextEdgeList threw " + std::string(outcomeName(classifyCurrentException())) + " on " + m.str(), replay);
                    continue;
                }
                try {
                    G h(0);
                    if constexpr (!T::labelled) {
                        auto res = io::loadTextEdgeList<GT, L>(file);
                        h = res.first;
                    } else {
                        auto res = io::loadTextEdgeList<GT, L>(file, std::function<L(const std::string &)>(Codec<L>::from));
                        h = res.first;
                    }
                    size_t want = expectedLoadedSize<G>(m);
                    digest(readFile(file));
                    digest(keyOf(h, false));
                    if (h.getSize() != want) {
                        fail("c13.size", "loaded graph has " + std::to_string(h.getSize()) + " vertices, expected 1+largest used index = " + std::to_string(want) + "; written graph " + m.str() + "; file " + visible(readFile(file)), replay);
                        continue;
                    }
                    h.resize(n);
                    if (!sameGraph(h, g, m))
                        fail("c13.roundtrip", "graph loaded back (and resized to the original size) differs from the original " + m.str() + " built by " + seqText(seq) + "; loaded key " + keyOf(h, true) + ", original key " + keyOf(g, true) + "; file " + visible(readFile(file)), replay);
                } catch (...) {
                    fail("c13.load", "loadTextEdgeList threw " + std::string(outcomeName(classifyCurrentException())) + " on a file written by writeTextEdgeList for " + m.str() + ": " + visible(readFile(file)), replay);
                }
            }
        }, true);
    }
}

// C13 (b): every file of <= 3 lines from a menu of well-formed lines
static void c13Format(int maxLines) {
    struct Line { std::string text; bool comment; unsigned a, b; std::string label; };
    std::vector<Line> menu;
    for (const char *c : {"#", "# 0 1", "#0 1", "# Vertex1 Vertex2 Label", "#\t5 5 x"}) menu.push_back({c, true, 0, 0, ""});
    const std::vector<std::string> pre = {"", " ", "\t", " \t "}, mid = {" ", "\t", "  \t"}, post = {"", " ", "\t"};
    const std::vector<std::pair<unsigned, unsigned>> pairs = {{0, 1}, {2, 0}, {1, 1}, {3, 3}};
    size_t k = 0;
    for (auto &pr : pairs)
        for (auto &p : pre)
            for (auto &mi : mid) {
                // unlabeled line with trailing blanks; labeled lines with one- and two-word labels
                menu.push_back({p + std::to_string(pr.first) + mi + std::to_string(pr.second) + post[k % post.size()], false, pr.first, pr.second, ""});
                menu.push_back({p + std::to_string(pr.first) + mi + std::to_string(pr.second) + mid[k % mid.size()] + "7", false, pr.first, pr.second, "7"});
                if (k % 2 == 0) menu.push_back({p + std::to_string(pr.first) + mi + std::to_string(pr.second) + mi + "x y\tz", false, pr.first, pr.second, "x y\tz"});
                ++k;
            }
    const std::string file = g_tmpdir + "/fmt.txt";
    std::vector<size_t> idx;
    std::function<void()> rec = [&]() {
        if (!idx.empty()) {
            // skip files naming the same (ordered) pair twice: the result of duplicate lines is not specified
            std::set<std::pair<unsigned, unsigned>> seenD, seenU;
            bool dupD = false, dupU = false;
            std::string content;
            for (size_t i : idx) {
                content += menu[i].text + "\n";
                if (menu[i].comment) continue;
                auto d = std::make_pair(menu[i].a, menu[i].b);
                auto u = std::make_pair(std::min(menu[i].a, menu[i].b), std::max(menu[i].a, menu[i].b));
                if (!seenD.insert(d).second) dupD = true;
                if (!seenU.insert(u).second) dupU = true;
            }
            // each file twice: as written, and with the final line ended by end-of-file instead of a newline
            const std::string fullContent = content;
            if (!dupU && !dupD)
              for (int noFinalNewline = 0; noFinalNewline < 2; ++noFinalNewline) {
                content = noFinalNewline ? fullContent.substr(0, fullContent.size() - 1) : fullContent;
                ++g_cases;
                if (idx.size() >= 2) ++g_nontrivial;
                writeFile(file, content);
                breadcrumb("C13 format file " + visible(content));
                std::string replay = "--part onefile --hex " + hex(content);
                try {
                    auto rd = io::loadTextEdgeList<LabeledDirectedGraph, std::string>(file, std::function<std::string(const std::string &)>([](const std::string &s) { return s; }));
                    auto ru = io::loadTextEdgeList<LabeledUndirectedGraph, NoLabel>(file);
                    size_t wantSize = 0, wantEdges = 0;
                    bool ok = true;
                    std::string why;
                    for (size_t i : idx) {
                        if (menu[i].comment) continue;
                        ++wantEdges;
                        wantSize = std::max<size_t>(wantSize, std::max(menu[i].a, menu[i].b) + 1);
                    }
                    if (rd.first.getSize() != wantSize || ru.first.getSize() != wantSize) { ok = false; why = "size " + std::to_string(rd.first.getSize()) + "/" + std::to_string(ru.first.getSize()) + ", expected " + std::to_string(wantSize); }
                    if (ok && (rd.first.getEdgeNumber() != wantEdges || ru.first.getEdgeNumber() != wantEdges)) { ok = false; why = "edge number " + std::to_string(rd.first.getEdgeNumber()) + "/" + std::to_string(ru.first.getEdgeNumber()) + ", expected " + std::to_string(wantEdges); }
                    if (ok)
                        for (size_t i : idx) {
                            if (menu[i].comment) continue;
                            if (!rd.first.hasEdge(menu[i].a, menu[i].b) || !ru.first.hasEdge(menu[i].a, menu[i].b)) { ok = false; why = "edge (" + std::to_string(menu[i].a) + "," + std::to_string(menu[i].b) + ") missing"; break; }
                            std::string got = rd.first.getEdgeLabel(menu[i].a, menu[i].b);
                            if (got != menu[i].label) { ok = false; why = "label parser received \"" + visible(got) + "\" for the line \"" + visible(menu[i].text) + "\", expected the rest of the line \"" + visible(menu[i].label) + "\""; break; }
                        }
                    if (!ok) fail("c13.format", "well-formed file \"" + visible(content) + "\": " + why, replay);
                } catch (...) {
                    fail("c13.format", "loader threw " + std::string(outcomeName(classifyCurrentException())) + " on the well-formed file \"" + visible(content) + "\"", replay);
                }
            }
        }
        if ((int)idx.size() == maxLines) return;
        for (size_t i = 0; i < menu.size(); ++i) {
            // limit the combinatorics: at depth >= 2 only every 3rd menu entry continues a file (all entries start one)
            if (idx.size() >= 1 && (i + idx[0]) % 3 != 0 && maxLines > 2) continue;
            idx.push_back(i);
            rec();
            idx.pop_back();
        }
    };
    rec();
    g_rep->count("menu_lines", (long long)menu.size());
}

// C13 (c): vertex-name loader
static void c13Names(int maxEdges, bool punctuation) {
    // base alphabet, or (second pass, shorter files) names that begin with characters other comment conventions use
    const std::vector<std::string> names = punctuation ? std::vector<std::string>{"a", "%y", ";z", "!q", "//c", "@", "\"q\"", "-5", "#x"} : std::vector<std::string>{"a", "b", "ab", "7", "#x"};
    const std::vector<std::string> pre = {"", " ", "\t"};
    const std::string file = g_tmpdir + "/names.txt";
    std::vector<std::pair<size_t, size_t>> seq;
    std::function<void()> rec = [&]() {
        if (!seq.empty()) {
            for (size_t pv = 0; pv < pre.size(); ++pv) {
                std::string content = "# comment\n";
                bool wellFormed = true;
                for (size_t k = 0; k < seq.size(); ++k) {
                    std::string lead = pre[(k + pv) % pre.size()];
                    if (lead.empty() && names[seq[k].first][0] == '#') wellFormed = false; // would be a comment line
                    content += lead + names[seq[k].first] + (k % 2 ? "\t" : " ") + names[seq[k].second] + "\n";
                }
                if (!wellFormed) continue;
                ++g_cases;
                if (seq.size() >= 2) ++g_nontrivial;
                writeFile(file, content);
                breadcrumb("C13 names file " + visible(content));
                std::string replay = "--part onenames --hex " + hex(content);
                // expected numbering: order of first appearance
                std::vector<std::string> order;
                auto indexOf = [&](const std::string &s) {
                    for (size_t i = 0; i < order.size(); ++i)
                        if (order[i] == s) return i;
                    order.push_back(s);
                    return order.size() - 1;
                };
                std::vector<std::pair<size_t, size_t>> edges;
                for (auto &e : seq) {
                    size_t a = indexOf(names[e.first]);
                    size_t b = indexOf(names[e.second]);
                    edges.emplace_back(a, b);
                }
                for (int und = 0; und < 2; ++und) {
                    try {
                        std::vector<std::string> table;
                        size_t size = 0;
                        std::function<bool(size_t, size_t)> has;
                        LabeledDirectedGraph<NoLabel> gd(0);
                        LabeledUndirectedGraph<NoLabel> gu(0);
                        if (!und) { auto r = io::loadTextVertexLabeledEdgeList<LabeledDirectedGraph, NoLabel>(file); gd = r.first; table = r.second; size = gd.getSize(); has = [&](size_t a, size_t b) { return gd.hasEdge(a, b); }; }
                        else { auto r = io::loadTextVertexLabeledEdgeList<LabeledUndirectedGraph, NoLabel>(file); gu = r.first; table = r.second; size = gu.getSize(); has = [&](size_t a, size_t b) { return gu.hasEdge(a, b); }; }
                        std::string why;
                        if (size != order.size()) why = "graph has " + std::to_string(size) + " vertices, expected " + std::to_string(order.size());
                        else if (table.size() != order.size()) why = "name table has " + std::to_string(table.size()) + " entries, expected " + std::to_string(order.size());
                        else {
                            for (size_t i = 0; i < order.size(); ++i)
                                if (table[i] != order[i]) { why = "names[" + std::to_string(i) + "] is \"" + visible(table[i]) + "\", expected \"" + order[i] + "\" (numbering by first appearance)"; break; }
                            if (why.empty())
                                for (auto &e : edges)
                                    if (!has(e.first, e.second)) { why = "edge between \"" + order[e.first] + "\" and \"" + order[e.second] + "\" missing"; break; }
                        }
                        if (!why.empty()) fail("c13.names", std::string(und ? "undirected" : "directed") + " vertex-name loader on \"" + visible(content) + "\": " + why, replay);
                    } catch (...) {
                        fail("c13.names", "loadTextVertexLabeledEdgeList threw " + std::string(outcomeName(classifyCurrentException())) + " on the well-formed file \"" + visible(content) + "\"", replay);
                    }
                }
            }
        }
        if ((int)seq.size() == maxEdges) return;
        for (size_t a = 0; a < names.size(); ++a)
            for (size_t b = 0; b < names.size(); ++b) {
                seq.emplace_back(a, b);
                rec();
                seq.pop_back();
            }
    };
    rec();
}

// ------------------------------------------------------------------------------------------- C14
template <class L> std::string encodeLE(const L &v) { // little-endian by construction (shifts only)
    std::string o;
    if constexpr (std::is_same<L, NoLabel>::value) return o;
    else if constexpr (std::is_floating_point<L>::value) {
        using U = typename std::conditional<sizeof(L) == 4, uint32_t, uint64_t>::type;
        U u;
        memcpy(&u, &v, sizeof u);
        for (size_t k = 0; k < sizeof(U); ++k) o += (char)((u >> (8 * k)) & 0xff);
        return o;
    } else {
        using U = typename std::make_unsigned<L>::type;
        U u = (U)v;
        for (size_t k = 0; k < sizeof(U); ++k) o += (char)(((unsigned long long)u >> (8 * k)) & 0xff);
        return o;
    }
}
static std::string encodeIndex(unsigned v) {
    std::string o;
    for (int k = 0; k < 4; ++k) o += (char)((v >> (8 * k)) & 0xff);
    return o;
}

template <template <class...> class GT, class L> GT<L> loadBin(const std::string &file) {
    if constexpr (std::is_same<L, NoLabel>::value) return io::loadBinaryEdgeList<GT, L>(file);
    else return io::loadBinaryEdgeList<GT, L>(file);
}
template <template <class...> class GT, class L> void writeBin(const GT<L> &g, const std::string &file) { io::writeBinaryEdgeList(g, file); }

template <template <class...> class GT, class L> void c14RoundTrip(int maxLen) {
    using G = GT<L>;
    using T = Tr<G>;
    const std::string file = g_tmpdir + "/rt.bin", file2 = g_tmpdir + "/perm.bin";
    const size_t rec = 8 + (T::labelled ? sizeof(L) : 0);
    for (unsigned n : {0u, 3u, 4u}) {
        forAllSequences<G>(n == 0 ? 0 : 3, n == 0 ? 0 : maxLen, T::labelled ? 3 : 1, [&](const std::vector<Ins> &seq) {
            G g(0);
            Model m;
            buildSeq(n, seq, g, m);
            ++g_cases;
            if (seq.size() >= 2) ++g_nontrivial;
            std::string replay = "--part one --n " + std::to_string(n) + " --seq " + (seq.empty() ? "-" : seqText(seq));
            breadcrumb(g_cfg + " binary round trip n=" + std::to_string(n) + " seq " + seqText(seq));
            try {
                writeBin<GT, L>(g, file);
            } catch (...) {
                fail("c14.write", "writeBinaryEdgeList threw " + std::string(outcomeName(classifyCurrentException())) + " on " + m.str(), replay);
                return;
            }
            std::string bytes = readFile(file);
            digest(bytes);
            // (i)+(ii): exactly one little-endian record per edge, in edges() order
            std::string want;
            for (auto e : g.edges()) {
                want += encodeIndex(e.first) + encodeIndex(e.second);
                if constexpr (T::labelled) want += encodeLE<L>(g.getEdgeLabel(e.first, e.second));
            }
            if (bytes.size() != copiesIn(m) * rec) fail("c14.length", "file has " + std::to_string(bytes.size()) + " bytes for " + std::to_string(copiesIn(m)) + " edges of " + std::to_string(rec) + " bytes; graph " + m.str(), replay);
            else if (bytes != want) fail("c14.layout", "file bytes " + hex(bytes) + " differ from the little-endian records " + hex(want) + " of " + m.str(), replay);
            // (iii)+(iv): load twice
            try {
                G h = loadBin<GT, L>(file), h2 = loadBin<GT, L>(file);
                size_t wantSize = expectedLoadedSize<G>(m);
                if (h.getSize() != wantSize) { fail("c14.size", "loaded graph has " + std::to_string(h.getSize()) + " vertices, expected 1+largest used index = " + std::to_string(wantSize) + " for " + m.str(), replay); return; }
                if ((!hasDuplicates(m) && !(h == h2)) || keyOf(h, true) != keyOf(h2, true)) fail("c14.deterministic", "loading the same bytes twice gave different graphs for " + m.str(), replay);
                h.resize(n);
                if (!sameGraph(h, g, m)) fail("c14.roundtrip", "graph loaded back (and resized) differs from the original " + m.str() + " built by " + seqText(seq) + ": loaded key " + keyOf(h, true) + " original key " + keyOf(g, true) + " file " + hex(bytes), replay);
                // (v) every permutation of the records loads to an equal graph
                size_t R = bytes.size() / rec;
                if (R >= 2 && R <= 4 && bytes.size() == R * rec) {
                    std::vector<size_t> perm(R);
                    for (size_t k = 0; k < R; ++k) perm[k] = k;
                    while (std::next_permutation(perm.begin(), perm.end())) {
                        std::string pb;
                        for (size_t k : perm) pb += bytes.substr(k * rec, rec);
                        writeFile(file2, pb);
                        G hp = loadBin<GT, L>(file2);
                        hp.resize(n);
                        ++g_cases;
                        if (!sameGraph(hp, g, m)) fail("c14.order", "hand-made file with the records of " + m.str() + " in another order (" + hex(pb) + ") loads to a different graph", "--part onebin --n " + std::to_string(n) + " --hex " + hex(pb) + " --seq " + seqText(seq));
                    }
                }
            } catch (...) {
                fail("c14.load", "loadBinaryEdgeList threw " + std::string(outcomeName(classifyCurrentException())) + " on a file written by writeBinaryEdgeList for " + m.str() + " (" + hex(bytes) + ")", replay);
            }
        }, true);
    }
}

// (vi) unopenable paths: every writer and loader throws std::runtime_error
static void c14Unopenable() {
    const std::vector<std::string> bad = {g_tmpdir, g_tmpdir + "/no/such/dir/file", ""};
    auto expectRuntime = [&](const std::string &what, const std::string &path, auto fn) {
        ++g_cases;
        ++g_nontrivial;
        breadcrumb("C14 unopenable " + what + " path " + path);
        try {
            fn();
            fail("c14.unopenable", what + " on the unopenable path \"" + path + "\" returned instead of throwing std::runtime_error", "--part unopenable");
        } catch (const std::runtime_error &) {
        } catch (...) {
            fail("c14.unopenable", what + " on the unopenable path \"" + path + "\" threw " + outcomeName(classifyCurrentException()) + " instead of std::runtime_error", "--part unopenable");
        }
    };
    LabeledDirectedGraph<NoLabel> d(2);
    d.addEdge(0, 1);
    LabeledUndirectedGraph<int> u(2);
    u.addEdge(0, 1, 5);
    for (auto &p : bad) {
        expectRuntime("writeTextEdgeList(unlabelled)", p, [&] { io::writeTextEdgeList(d, p); });
        expectRuntime("writeTextEdgeList(labelled)", p, [&] { io::writeTextEdgeList(u, p); });
        expectRuntime("writeBinaryEdgeList(unlabelled)", p, [&] { io::writeBinaryEdgeList(d, p); });
        expectRuntime("writeBinaryEdgeList(labelled)", p, [&] { io::writeBinaryEdgeList(u, p); });
        // a directory CAN be opened for reading on this platform (open(2) succeeds), so it is not a
        // "file that cannot be opened" for the loaders; only the writers are tried on it
        if (p == g_tmpdir) continue;
        expectRuntime("loadTextEdgeList(unlabelled)", p, [&] { (void)io::loadTextEdgeList<LabeledDirectedGraph, NoLabel>(p); });
        expectRuntime("loadTextEdgeList(labelled)", p, [&] { (void)io::loadTextEdgeList<LabeledUndirectedGraph, int>(p, std::function<int(const std::string &)>([](const std::string &s) { return std::stoi(s); })); });
        expectRuntime("loadTextVertexLabeledEdgeList(unlabelled)", p, [&] { (void)io::loadTextVertexLabeledEdgeList<LabeledDirectedGraph, NoLabel>(p); });
        expectRuntime("loadTextVertexLabeledEdgeList(labelled)", p, [&] { (void)io::loadTextVertexLabeledEdgeList<LabeledUndirectedGraph, int>(p, std::function<int(const std::string &)>([](const std::string &s) { return std::stoi(s); })); });
        expectRuntime("loadBinaryEdgeList(unlabelled)", p, [&] { (void)io::loadBinaryEdgeList<LabeledDirectedGraph, NoLabel>(p); });
        expectRuntime("loadBinaryEdgeList(labelled)", p, [&] { (void)io::loadBinaryEdgeList<LabeledUndirectedGraph, int>(p); });
    }
}

// ------------------------------------------------------------------------------------------- C15
// (a) every cut offset of every written file
template <template <class...> class GT, class L> void c15Cuts(int maxLen) {
    using G = GT<L>;
    using T = Tr<G>;
    const std::string file = g_tmpdir + "/full.bin", cut = g_tmpdir + "/cut.bin";
    const size_t rec = 8 + (T::labelled ? sizeof(L) : 0);
    forAllSequences<G>(3, maxLen, T::labelled ? 2 : 1, [&](const std::vector<Ins> &seqIn) {
        if (seqIn.empty()) return;
        std::vector<Ins> seq = seqIn;
        for (auto &s : seq) s.v += (T::labelled ? 1 : 0); // labels 1,2: every byte non-zero where possible
        G g(0);
        Model m;
        buildSeq(3, seq, g, m);
        writeBin<GT, L>(g, file);
        std::string bytes = readFile(file);
        std::vector<Edge> order;
        for (auto e : g.edges()) order.push_back(e);
        for (size_t off = 0; off <= bytes.size(); ++off) {
            ++g_cases;
            if (off % rec != 0) ++g_nontrivial;
            writeFile(cut, bytes.substr(0, off));
            std::string replay = "--part onecut --hex " + hex(bytes.substr(0, off));
            breadcrumb(g_cfg + " cut at " + std::to_string(off) + " of " + hex(bytes));
            try {
                G h = loadBin<GT, L>(cut);
                // expected: exactly the complete records before the cut
                size_t R = off / rec;
                Model pm;
                pm.directed = T::directed;
                size_t size = 0;
                for (size_t k = 0; k < R; ++k) {
                    auto e = order[k];
                    pm.e[pm.canon(e.first, e.second)] = *m.find(e.first, e.second);
                    size = std::max<size_t>(size, std::max(e.first, e.second) + 1);
                }
                pm.n = (unsigned)size;
                ClauseSink sink;
                if (h.getSize() > 1000) { fail("c15.cut", "file cut at byte " + std::to_string(off) + " of " + hex(bytes) + " loaded to a graph with " + std::to_string(h.getSize()) + " vertices", replay); continue; }
                checkState(h, pm, sink);
                if (!sink.failures.empty())
                    fail("c15.cut", "file of " + m.str() + " (" + hex(bytes) + ", " + std::to_string(rec) + "-byte records) cut at byte " + std::to_string(off) + ": loader returned a graph that is not the " + std::to_string(R) +
                                        " complete record(s) before the cut: " + sink.failures[0].second, replay);
            } catch (const std::exception &) {
                // throwing is allowed
            } catch (...) {
                fail("c15.cut", "loader threw something not derived from std::exception on a file cut at byte " + std::to_string(off), replay);
            }
        }
    });
}

// (b) arbitrary text: every token string up to a length over a 17-token alphabet
static void c15Text(int maxLen, unsigned shard, unsigned shards) {
    const std::vector<std::string> tok = {"0", "1", "2", "10", "-1", "123456789012", "+1", "1.5", "x", "#", " ", "\t", "\n", "\r", std::string(1, '\0'), "\xff", "# Vertex1 Vertex2 Label\n", "4294967295", "4294967296", "-2147483649"};
    const std::string file = g_tmpdir + "/any.txt";
    std::vector<size_t> idx;
    unsigned long long counter = 0;
    auto tryAll = [&](const std::string &content) {
        std::string replay = "--part onetext --hex " + hex(content);
        auto attempt = [&](const std::string &what, auto fn) {
            ++g_cases;
            try {
                fn();
            } catch (const std::exception &) {
            } catch (...) {
                fail("c15.text", what + " threw something not derived from std::exception on \"" + visible(content) + "\"", replay);
            }
        };
        attempt("loadTextEdgeList<Directed,NoLabel>", [&] { (void)io::loadTextEdgeList<LabeledDirectedGraph, NoLabel>(file); });
        attempt("loadTextEdgeList<Undirected,NoLabel>", [&] { (void)io::loadTextEdgeList<LabeledUndirectedGraph, NoLabel>(file); });
        attempt("loadTextEdgeList<Directed,int>", [&] { (void)io::loadTextEdgeList<LabeledDirectedGraph, int>(file, std::function<int(const std::string &)>([](const std::string &s) { return std::stoi(s); })); });
        attempt("loadTextVertexLabeledEdgeList<Directed,NoLabel>", [&] { (void)io::loadTextVertexLabeledEdgeList<LabeledDirectedGraph, NoLabel>(file); });
        attempt("loadTextVertexLabeledEdgeList<Undirected,int>", [&] { (void)io::loadTextVertexLabeledEdgeList<LabeledUndirectedGraph, int>(file, std::function<int(const std::string &)>([](const std::string &s) { return std::stoi(s); })); });
    };
    std::function<void()> rec = [&]() {
        if ((counter++ % shards) == shard) {
            std::string content;
            bool hasNewline = false;
            for (size_t i : idx) { content += tok[i]; if (tok[i].find('\n') != std::string::npos) hasNewline = true; }
            if (hasNewline || idx.size() >= 2) ++g_nontrivial;
            writeFile(file, content);
            breadcrumb("C15 text \"" + visible(content) + "\" hex " + hex(content));
            tryAll(content);
        }
        if ((int)idx.size() == maxLen) return;
        for (size_t i = 0; i < tok.size(); ++i) {
            idx.push_back(i);
            rec();
            idx.pop_back();
        }
    };
    rec();
    // a few longer, line-structured files: header + (data | blank | one-token | garbage) lines
    const std::vector<std::string> lines = {"0 1", "", " ", "5", "x y", "-1 0", "0 -1", "1 2 3 4", "\t", "#", "123456789012 1", "0 1 \xff", "3 3 ", std::string("0 1") + '\0'};
    std::vector<size_t> li;
    std::function<void()> rec2 = [&]() {
        if (!li.empty() && (counter++ % shards) == shard) {
            std::string content = "# Vertex1 Vertex2 Label\n";
            for (size_t i : li) content += lines[i] + "\n";
            ++g_nontrivial;
            writeFile(file, content);
            breadcrumb("C15 text lines \"" + visible(content) + "\"");
            tryAll(content);
        }
        if (li.size() == 3) return;
        for (size_t i = 0; i < lines.size(); ++i) {
            li.push_back(i);
            rec2();
            li.pop_back();
        }
    };
    rec2();
}

// (c) arbitrary bytes offered as a binary edge list: every string up to maxLen bytes over a per-position
// alphabet that keeps the indices small (low byte 0..3, second byte 0..1, upper bytes 0; label bytes 0..2)
template <template <class...> class GT, class L> void c15Bytes(size_t maxLen) {
    using G = GT<L>;
    using T = Tr<G>;
    const std::string file = g_tmpdir + "/bytes.bin";
    const size_t rec = 8 + (T::labelled ? sizeof(L) : 0);
    std::string cur;
    std::function<void()> rec_ = [&]() {
        ++g_cases;
        if (cur.size() % rec != 0) ++g_nontrivial;
        writeFile(file, cur);
        std::string replay = "--part onecut --hex " + hex(cur);
        breadcrumb(g_cfg + " bytes " + hex(cur));
        try {
            G h = loadBin<GT, L>(file);
            size_t R = cur.size() / rec;
            // expected: the complete records, each decoded independently
            std::vector<std::vector<unsigned>> nb;
            size_t size = 0, edges = 0;
            std::map<std::pair<unsigned, unsigned>, int> cnt;
            for (size_t k = 0; k < R; ++k) {
                unsigned a = 0, b = 0;
                for (int t = 3; t >= 0; --t) { a = (a << 8) | (unsigned char)cur[k * rec + t]; b = (b << 8) | (unsigned char)cur[k * rec + 4 + t]; }
                size = std::max<size_t>(size, std::max(a, b) + 1);
                auto key = (T::directed || a <= b) ? std::make_pair(a, b) : std::make_pair(b, a);
                ++cnt[key];
                ++edges;
            }
            std::string why;
            if (h.getSize() != size) why = "size " + std::to_string(h.getSize()) + ", expected " + std::to_string(size);
            else if (h.getEdgeNumber() != edges) why = "edge number " + std::to_string(h.getEdgeNumber()) + ", expected " + std::to_string(edges) + " (one per complete record)";
            else
                for (auto &p : cnt)
                    if (!h.hasEdge(p.first.first, p.first.second)) { why = "edge (" + std::to_string(p.first.first) + "," + std::to_string(p.first.second) + ") of a complete record is missing"; break; }
            if (why.empty() && size <= 600) { // nothing else
                size_t listed = 0;
                for (unsigned v = 0; v < size; ++v) listed += h.getOutNeighbours(v).size();
                size_t wantListed = 0;
                for (auto &p : cnt) wantListed += (size_t)p.second * ((T::directed || p.first.first == p.first.second) ? 1 : 2);
                if (listed != wantListed) why = "neighbour lists hold " + std::to_string(listed) + " entries, expected " + std::to_string(wantListed);
            }
            if (!why.empty()) fail("c15.bytes", "bytes " + hex(cur) + " (" + std::to_string(rec) + "-byte records): loader returned a graph that is not the " + std::to_string(R) + " complete record(s): " + why, replay);
        } catch (const std::exception &) {
        } catch (...) {
            fail("c15.bytes", "loader threw something not derived from std::exception on bytes " + hex(cur), replay);
        }
        if (cur.size() == maxLen) return;
        size_t pos = cur.size() % rec;
        int alpha = pos >= 8 ? 3 : ((pos % 4) == 0 ? 4 : ((pos % 4) == 1 ? 2 : 1));
        for (int v = 0; v < alpha; ++v) {
            cur.push_back((char)v);
            rec_();
            cur.pop_back();
        }
    };
    rec_();
}

// ----------------------------------------------------------------------- size-threshold ("big") parts
// Structured larger graphs: sizes and edge counts chosen to straddle the thresholds an implementation may
// have (256 / 65536 vertex indices, 512 / 1024 / 2048 records, 4 KiB / 8 KiB / 64 KiB of file).
template <class G> std::vector<std::pair<std::string, G>> bigGraphs(bool forText) {
    using T = Tr<G>;
    using L = typename T::Label;
    std::vector<std::pair<std::string, G>> out;
    auto add = [](G &g, unsigned i, unsigned j, long k) {
        if constexpr (T::labelled) g.addEdge(i, j, LabelAlpha<L>::value(1 + (k % 2)));
        else g.addEdge(i, j);
        (void)k;
    };
    for (unsigned hub : {255u, 256u, 511u, 600u}) { // stars whose hub index has an 0xFF / 0x00 low byte
        G g(hub + 3);
        for (unsigned i = 0; i < hub + 3; i += 7) add(g, hub, i, i);
        add(g, hub, hub, 1);
        out.emplace_back("star out of vertex " + std::to_string(hub), g);
    }
    for (unsigned n : {23u, 33u, 46u, forText ? 100u : 72u}) { // complete digraphs: 529, 1089, 2116, 5184/10000 edges
        G g(n);
        long k = 0;
        for (unsigned i = 0; i < n; ++i)
            for (unsigned j = 0; j < n; ++j) add(g, i, j, k++);
        out.emplace_back("complete graph with loops on " + std::to_string(n) + " vertices", g);
    }
    for (unsigned m : {511u, 512u, 513u, 1023u, 1024u, 1025u, 2047u, 2048u, 2049u}) { // exact record counts around block sizes
        G g(m + 1);
        for (unsigned i = 0; i < m; ++i) add(g, i, i + 1, i);
        out.emplace_back("path with " + std::to_string(m) + " edges", g);
    }
    {
        G g(70000); // vertex indices that need more than 16 bits
        add(g, 65535, 65536, 0); add(g, 69999, 0, 1); add(g, 65536, 65536, 2);
        out.emplace_back("indices around 65536", g);
    }
    return out;
}

template <template <class...> class GT, class L> void bigText() {
    using G = GT<L>;
    using T = Tr<G>;
    const std::string file = g_tmpdir + "/big.txt";
    auto graphs = bigGraphs<G>(true);
    if constexpr (std::is_same<L, std::string>::value) { // few edges, very long labels: > 64 KiB of label text
        G g(50);
        for (unsigned i = 0; i < 40; ++i) g.addEdge(i, (i * 7 + 1) % 50, std::string(3000 + i, (char)('a' + i % 26)) + " tail");
        graphs.emplace_back("40 edges with 3000-character labels", g);
    }
    for (auto &pr : graphs) {
        const G &g = pr.second;
        ++g_cases;
        ++g_nontrivial;
        breadcrumb(g_cfg + " big text round trip: " + pr.first);
        std::string replay = "--part bigtext";
        try {
            if constexpr (!T::labelled) io::writeTextEdgeList(g, file);
            else io::writeTextEdgeList(g, file, std::function<std::string(const L &)>(Codec<L>::to));
            G h(0);
            if constexpr (!T::labelled) h = io::loadTextEdgeList<GT, L>(file).first;
            else h = io::loadTextEdgeList<GT, L>(file, std::function<L(const std::string &)>(Codec<L>::from)).first;
            digestNum(h.getEdgeNumber());
            if (h.getSize() > g.getSize()) { fail("c13.big", pr.first + ": loaded graph has more vertices than the original", replay); continue; }
            h.resize(g.getSize());
            if (h.getEdgeNumber() != g.getEdgeNumber() || !(h == g) || !(g == h))
                fail("c13.big", pr.first + " (" + std::to_string(g.getEdgeNumber()) + " edges, file of " + std::to_string(readFile(file).size()) + " bytes): graph loaded back has " + std::to_string(h.getEdgeNumber()) +
                                    " edges and is" + ((h == g) ? "" : " not") + " equal to the original", replay);
        } catch (...) {
            fail("c13.big", pr.first + ": text round trip threw " + outcomeName(classifyCurrentException()), replay);
        }
    }
}

static void decodeRecords(const std::string &bytes, size_t rec, size_t count, std::vector<std::pair<unsigned, unsigned>> &edges, size_t &size) {
    size = 0;
    for (size_t k = 0; k < count; ++k) {
        unsigned a = 0, b = 0;
        for (int t = 3; t >= 0; --t) { a = (a << 8) | (unsigned char)bytes[k * rec + t]; b = (b << 8) | (unsigned char)bytes[k * rec + 4 + t]; }
        edges.emplace_back(a, b);
        size = std::max<size_t>(size, std::max(a, b) + 1);
    }
}

template <template <class...> class GT, class L> void bigBinary(bool cuts) {
    using G = GT<L>;
    using T = Tr<G>;
    const std::string file = g_tmpdir + "/big.bin", cut = g_tmpdir + "/bigcut.bin";
    const size_t rec = 8 + (T::labelled ? sizeof(L) : 0);
    for (auto &pr : bigGraphs<G>(false)) {
        const G &g = pr.second;
        breadcrumb(g_cfg + " big binary: " + pr.first);
        std::string replay = cuts ? "--part bigcuts" : "--part bigbin";
        try {
            writeBin<GT, L>(g, file);
            std::string bytes = readFile(file);
            if (!cuts) {
                ++g_cases;
                ++g_nontrivial;
                digest(bytes);
                std::string want;
                for (auto e : g.edges()) {
                    want += encodeIndex(e.first) + encodeIndex(e.second);
                    if constexpr (T::labelled) want += encodeLE<L>(g.getEdgeLabel(e.first, e.second));
                }
                if (bytes.size() != g.getEdgeNumber() * rec) fail("c14.big", pr.first + ": file has " + std::to_string(bytes.size()) + " bytes for " + std::to_string(g.getEdgeNumber()) + " records of " + std::to_string(rec) + " bytes", replay);
                else if (bytes != want) fail("c14.big", pr.first + ": file bytes differ from the little-endian records in edges() order", replay);
                G h = loadBin<GT, L>(file);
                if (h.getSize() > g.getSize()) { fail("c14.big", pr.first + ": loaded graph is larger than the original", replay); continue; }
                h.resize(g.getSize());
                if (h.getEdgeNumber() != g.getEdgeNumber() || !(h == g) || !(g == h))
                    fail("c14.big", pr.first + " (" + std::to_string(g.getEdgeNumber()) + " records): graph loaded back has " + std::to_string(h.getEdgeNumber()) + " edges and is" + ((h == g) ? "" : " not") + " equal to the original", replay);
                continue;
            }
            // cut offsets: every offset within 2 records of each multiple of 4096 bytes, of the file start and of its end
            std::set<size_t> offs;
            for (size_t base = 0; base <= bytes.size() + 4096; base += 4096)
                for (long d = -2 * (long)rec; d <= 2 * (long)rec; ++d) {
                    long o = (long)base + d;
                    if (o >= 0 && (size_t)o <= bytes.size()) offs.insert((size_t)o);
                }
            for (long d = 0; d <= 2 * (long)rec && (size_t)d <= bytes.size(); ++d) offs.insert(bytes.size() - (size_t)d);
            for (size_t off : offs) {
                ++g_cases;
                if (off % rec) ++g_nontrivial;
                writeFile(cut, bytes.substr(0, off));
                try {
                    G h = loadBin<GT, L>(cut);
                    size_t R = off / rec, size = 0;
                    std::vector<std::pair<unsigned, unsigned>> edges;
                    decodeRecords(bytes, rec, R, edges, size);
                    std::string why;
                    if (h.getSize() != size) why = "size " + std::to_string(h.getSize()) + ", expected " + std::to_string(size);
                    else if (h.getEdgeNumber() != R) why = "edge number " + std::to_string(h.getEdgeNumber()) + ", expected " + std::to_string(R);
                    else
                        for (auto &e : edges)
                            if (!h.hasEdge(e.first, e.second)) { why = "edge of a complete record missing"; break; }
                    if (why.empty()) {
                        size_t listed = 0;
                        for (unsigned v = 0; v < size; ++v) listed += h.getOutNeighbours(v).size();
                        size_t wantListed = 0;
                        for (auto &e : edges) wantListed += (T::directed || e.first == e.second) ? 1 : 2;
                        if (listed != wantListed) why = "neighbour lists hold " + std::to_string(listed) + " entries, expected " + std::to_string(wantListed);
                    }
                    if (!why.empty()) fail("c15.bigcut", pr.first + ": file of " + std::to_string(bytes.size()) + " bytes cut at byte " + std::to_string(off) + ": " + why, replay);
                } catch (const std::exception &) {
                } catch (...) { fail("c15.bigcut", pr.first + ": non-std exception at cut " + std::to_string(off), replay); }
            }
        } catch (...) {
            fail(cuts ? "c15.bigcut" : "c14.big", pr.first + ": threw " + outcomeName(classifyCurrentException()), replay);
        }
    }
}

// ------------------------------------------------------------------------------ single-case replays
template <template <class...> class GT, class L> int replayCut(const Args &args) {
    using G = GT<L>;
    std::string bytes = unhex(args.get("hex", ""));
    std::string file = g_tmpdir + "/replay.bin";
    writeFile(file, bytes);
    try {
        G h = loadBin<GT, L>(file);
        printf("loader returned: key %s\n", keyOf(h, false).c_str());
    } catch (const std::exception &e) { printf("loader threw %s\n", e.what()); }
    return 0;
}

// ----------------------------------------------------------------------------------------- driver
template <template <class...> class GT, class L> int runTyped(const std::string &part, const Args &args) {
    int len = (int)args.getInt("len", 3);
    if (part == "roundtrip") {
        if (g_prop == "C13") {
            if constexpr (std::is_same<L, NoLabel>::value || std::is_same<L, int>::value || std::is_same<L, double>::value || std::is_same<L, std::string>::value) c13RoundTrip<GT, L>(len);
        } else if constexpr (!std::is_same<L, std::string>::value) c14RoundTrip<GT, L>(len);
    } else if (part == "bigtext") {
        if constexpr (std::is_same<L, NoLabel>::value || std::is_same<L, int>::value || std::is_same<L, double>::value || std::is_same<L, std::string>::value) bigText<GT, L>();
    } else if (part == "bigbin" || part == "bigcuts") {
        if constexpr (!std::is_same<L, std::string>::value) bigBinary<GT, L>(part == "bigcuts");
    } else if (part == "cuts") {
        if constexpr (!std::is_same<L, std::string>::value) c15Cuts<GT, L>(len);
    } else if (part == "bytes") {
        if constexpr (!std::is_same<L, std::string>::value) c15Bytes<GT, L>((size_t)args.getInt("len", 9));
    } else if (part == "one" || part == "onebin" || part == "onecut") {
        // replays: re-run the part restricted to one case is not needed for a verdict; show what the loader does
        if constexpr (!std::is_same<L, std::string>::value)
            if (part == "onecut" || part == "onebin") return replayCut<GT, L>(args);
        printf("replay of a single round trip: re-run `--part roundtrip` (the case is printed in the violation)\n");
        return 0;
    } else {
        fprintf(stderr, "unknown part %s\n", part.c_str());
        return 2;
    }
    return -1;
}

int main(int argc, char **argv) {
    Args args(argc, argv);
    (void)clock_();
    installWatchdog(60);
    if (args.has("deadline")) clock_().deadlineS = (double)args.getInt("deadline", 100000);
    g_tmpdir = args.get("tmpdir", ".");
    g_prop = args.get("prop", "C13");
    std::string part = args.get("part", "roundtrip"), config = args.get("config", "-");
    g_cfg = config + "/" + part + (args.has("len") ? args.get("len") : "") + (args.has("shards") ? "/s" + args.get("shard", "0") : "");
    Reporter rep;
    g_rep = &rep;
    rep.property = g_prop;
    rep.config = g_cfg;
    rep.tier = args.get("tier", "quick");
    int rc = -1;
    if (part == "format") c13Format((int)args.getInt("len", 2));
    else if (part == "names") { c13Names((int)args.getInt("len", 3), false); c13Names(std::max(1, (int)args.getInt("len", 3) - 1), true); }
    else if (part == "unopenable") c14Unopenable();
    else if (part == "text") c15Text((int)args.getInt("len", 3), (unsigned)args.getInt("shard", 0), (unsigned)args.getInt("shards", 1));
    else if (part == "onetext" || part == "onefile" || part == "onenames") {
        std::string content = unhex(args.get("hex", ""));
        writeFile(g_tmpdir + "/replay.txt", content);
        printf("file: \"%s\"\n", visible(content).c_str());
        try {
            auto r = io::loadTextVertexLabeledEdgeList<LabeledDirectedGraph, NoLabel>(g_tmpdir + "/replay.txt");
            printf("vertex-name loader returned %zu vertices\n", r.first.getSize());
        } catch (const std::exception &e) { printf("vertex-name loader threw %s\n", e.what()); }
        try {
            auto r = io::loadTextEdgeList<LabeledDirectedGraph, std::string>(g_tmpdir + "/replay.txt", std::function<std::string(const std::string &)>([](const std::string &s) { return s; }));
            printf("index loader returned: key %s\n", keyOf(r.first, false).c_str());
        } catch (const std::exception &e) { printf("index loader threw %s\n", e.what()); }
        return 0;
    } else {
#define TCFG(NAME, GT, L)                                                                                                                                                          \
    if (config == NAME) rc = runTyped<GT, L>(part, args);
#if GROUP == 0 || GROUP == -1
        TCFG("dir_NoLabel", LabeledDirectedGraph, NoLabel)
        TCFG("und_NoLabel", LabeledUndirectedGraph, NoLabel)
        TCFG("dir_int", LabeledDirectedGraph, int)
        TCFG("und_int", LabeledUndirectedGraph, int)
#endif
#if GROUP == 1 || GROUP == -1
        TCFG("dir_string", LabeledDirectedGraph, std::string)
        TCFG("und_string", LabeledUndirectedGraph, std::string)
        TCFG("dir_double", LabeledDirectedGraph, double)
        TCFG("und_double", LabeledUndirectedGraph, double)
#endif
#if GROUP == 2 || GROUP == -1
        TCFG("dir_u8", LabeledDirectedGraph, u8)
        TCFG("und_i8", LabeledUndirectedGraph, i8)
        TCFG("dir_i16", LabeledDirectedGraph, short)
        TCFG("und_u32", LabeledUndirectedGraph, unsigned)
#endif
#if GROUP == 3 || GROUP == -1
        TCFG("dir_i64", LabeledDirectedGraph, i64)
        TCFG("und_u64", LabeledUndirectedGraph, u64)
        TCFG("dir_float", LabeledDirectedGraph, float)
        TCFG("und_char", LabeledUndirectedGraph, char)
#endif
        if (rc == -1 && !(part == "roundtrip" || part == "cuts" || part == "bytes" || part == "bigtext" || part == "bigbin" || part == "bigcuts")) { fprintf(stderr, "config %s not in group %d\n", config.c_str(), GROUP); return 2; }
        if (rc >= 0) return rc;
    }
    rep.count("cases", (long long)g_cases);
    rep.count("nontrivial_cases", (long long)g_nontrivial);
    JObj s;
    s.str("config", g_cfg).num("cases", (long long)g_cases);
    rep.sample(s.render());
    std::string out = args.get("out", "");
    if (!out.empty() && !rep.write(out)) return 2;
    printf("%s %s: cases=%llu violations=%llu wall=%.1fs\n", g_prop.c_str(), g_cfg.c_str(), g_cases, rep.violations(), clock_().elapsed());
    return args.has("exitcode") && rep.violations() ? 1 : 0;
}
