// C18: concurrent read-only use of one graph object is race-free and deterministic.
//
// k threads each run ONE const operation on a shared graph object.  The scheduler (mc/sched/sched.c,
// not instrumented, raw futex hand-off) owns every thread switch; this file enumerates all schedules up
// to a preemption bound (iterative context bounding) for every unordered pair of operations.  The whole
// harness is built with ThreadSanitizer, which does not see the hand-offs: serialised executions still
// report unsynchronised conflicting accesses.  Oracle per execution: no TSan report (halt_on_error: the
// process exits 66 and the driver names the pair), every thread's result equals the single-threaded
// baseline computed on ANOTHER, identically built object, the shared object's key is unchanged, no hang.
//
//   c18 --config dir_int --mode coarse|fine|free --bound 2 --out r.json --tmpdir D
#include "../mc/model.hpp"

#include "BaseGraph/algorithms/paths.hpp"
#include "BaseGraph/algorithms/topology.hpp"
#include "BaseGraph/fileio.hpp"

#include <pthread.h>

using namespace verif;
using namespace BaseGraph;

#ifndef GROUP
#define GROUP -1
#endif

extern "C" {
void sch_reset(int nthreads, const int *prefix, int prefix_len, int mode);
void sch_start(void);
void sch_thread_begin(int id);
void sch_thread_end(int id);
void sch_point(void);
int sch_npoints(void);
int sch_overflow(void);
int sch_error(void);
void sch_trace(int i, int *running, int *mask, int *choice);
}

static std::string g_tmpdir = ".";

// any iterable of integers (paths, neighbour lists, distance vectors), whatever container type the library uses
template <class C> std::string ser(const C &c) {
    std::string s = "<";
    for (auto v : c) s += std::to_string(v) + ",";
    return s + ">";
}
static std::string slurp(const std::string &p) {
    FILE *f = fopen(p.c_str(), "rb");
    if (!f) return "<unreadable>";
    std::string s;
    char buf[4096];
    size_t n;
    while ((n = fread(buf, 1, sizeof buf, f)) > 0) s.append(buf, n);
    fclose(f);
    static const char *d = "0123456789abcdef";
    std::string o;
    for (unsigned char c : s) { o += d[c >> 4]; o += d[c & 15]; }
    return o;
}

// Private partner graphs for the comparison operations: one pair per thread, built by the main thread BEFORE the
// reader threads start (so building them is not part of the explored behaviour).  `same`: the value of the shared
// graph built in the opposite insertion order (and, undirected, with every pair named the other way round);
// `diff`: the same size and edge count with one pair (or, when every pair exists, one value) replaced.
template <class G> struct Partners {
    static std::vector<G> &same() { static std::vector<G> v; return v; }
    static std::vector<G> &diff() { static std::vector<G> v; return v; }
    static int slot(int tid) { return tid == 99 ? 0 : tid + 1; }
};
template <class G> G rebuiltInOtherOrder(const G &g, bool alter) {
    using T = Tr<G>;
    std::vector<std::pair<VertexIndex, VertexIndex>> es;
    for (auto e : g.edges()) es.push_back(e);
    std::reverse(es.begin(), es.end());
    G h((VertexIndex)g.getSize());
    std::pair<VertexIndex, VertexIndex> spare{0, 0};
    bool haveSpare = false;
    for (VertexIndex i = 0; i < g.getSize() && !haveSpare; ++i)
        for (VertexIndex j = T::directed ? 0 : i; j < g.getSize() && !haveSpare; ++j)
            if (!g.hasEdge(i, j)) { spare = {i, j}; haveSpare = true; }
    for (size_t k = 0; k < es.size(); ++k) {
        VertexIndex a = es[k].first, b = es[k].second, x = a, y = b;
        if (!T::directed) std::swap(x, y);
        bool altered = alter && k + 1 == es.size();
        if (altered && haveSpare) { x = spare.first; y = spare.second; }
        if constexpr (T::fam == MULTI) h.addMultiedge(x, y, g.getEdgeMultiplicity(a, b) + ((altered && !haveSpare) ? 1 : 0));
        else if constexpr (T::fam == WEIGHTED) h.addEdge(x, y, g.getEdgeWeight(a, b) + ((altered && !haveSpare) ? 1.0 : 0.0));
        else if constexpr (T::labelled) h.addEdge(x, y, (altered && !haveSpare) ? LabelAlpha<typename T::Label>::value(3) : g.getEdgeLabel(a, b));
        else h.addEdge(x, y);
    }
    return h;
}
template <class G> void preparePartners(const G &sharedValue, int threads) {
    Partners<G>::same().assign(threads + 1, rebuiltInOtherOrder(sharedValue, false));
    Partners<G>::diff().assign(threads + 1, rebuiltInOtherOrder(sharedValue, true));
}

// ----------------------------------------------------------------------------- the const alphabet
template <class G> struct ConstOp {
    std::string name;
    std::function<std::string(const G &, int)> fn; // (shared graph, thread id) -> serialised result
    bool core;                                     // member of the fine-grained core
    bool seq = false;                              // composite "a ; b" (two const calls by the same thread, a switch point between)
};

template <class G> std::vector<ConstOp<G>> constOps() {
    using T = Tr<G>;
    std::vector<ConstOp<G>> ops;
    auto add = [&](const std::string &n, bool core, std::function<std::string(const G &, int)> f) { ops.push_back({n, f, core}); };
    add("key(all getters)", true, [](const G &g, int) { return keyOf(g, false); });
    add("getSize+getEdgeNumber", false, [](const G &g, int) { return std::to_string(g.getSize()) + "/" + std::to_string(g.getEdgeNumber()); });
    add("hasEdge(all pairs)", true, [](const G &g, int) {
        std::string s;
        for (VertexIndex i = 0; i < g.getSize(); ++i)
            for (VertexIndex j = 0; j < g.getSize(); ++j) s += g.hasEdge(i, j) ? '1' : '0';
        return s;
    });
    add("vertex iteration", false, [](const G &g, int) {
        std::string s;
        for (auto v : g) s += std::to_string(v) + ",";
        return s;
    });
    add("edges()", true, [](const G &g, int) {
        std::string s;
        for (auto e : g.edges()) s += "(" + std::to_string(e.first) + "," + std::to_string(e.second) + ")";
        return s;
    });
    add("getAdjacencyMatrix", true, [](const G &g, int) { return matStr(g.getAdjacencyMatrix()); });
    add("operator== vs private copy", true, [](const G &g, int) {
        G c(g);
        return std::to_string((int)(g == c)) + std::to_string((int)(c == g)) + std::to_string((int)(g != c));
    });
    add("operator== vs equal graph built in another order", true, [](const G &g, int tid) {
        const G &o = Partners<G>::same()[Partners<G>::slot(tid)];
        return std::to_string((int)(g == o)) + std::to_string((int)(o == g)) + std::to_string((int)(g != o));
    });
    add("operator== vs different graph of the same size and edge count", true, [](const G &g, int tid) {
        const G &o = Partners<G>::diff()[Partners<G>::slot(tid)];
        return std::to_string((int)(g == o)) + std::to_string((int)(o == g)) + std::to_string((int)(g != o));
    });
    add("operator== vs itself", false, [](const G &g, int) { return std::to_string((int)(g == g)); });
    add("copy construction", true, [](const G &g, int) {
        G c(g);
        return keyOf(c, false);
    });
    add("operator<<", false, [](const G &g, int) {
        std::ostringstream o;
        o << g;
        return o.str();
    });
    if constexpr (T::directed) {
        add("getInDegrees", true, [](const G &g, int) { return ser(g.getInDegrees()); });
        add("getInDegree(each)", false, [](const G &g, int) {
            std::string s;
            for (VertexIndex v = 0; v < g.getSize(); ++v) s += std::to_string(g.getInDegree(v)) + ",";
            return s;
        });
        add("getOutDegrees", false, [](const G &g, int) { return ser(g.getOutDegrees()); });
    } else {
        add("getDegrees", true, [](const G &g, int) { return ser(g.getDegrees()) + ser(g.getDegrees(false)); });
        add("getAdjacencyMatrix(false)", false, [](const G &g, int) { return matStr(g.getAdjacencyMatrix(false)); });
    }
    if constexpr (T::fam == PLAIN) {
        using L = typename T::Label;
        if constexpr (T::directed) {
            add("getReversedGraph", true, [](const G &g, int) { return keyOf(g.getReversedGraph(), false); });
            add("undirected from directed", false, [](const G &g, int) { return keyOf(LabeledUndirectedGraph<L>(g), false); });
        } else {
            add("getDirectedGraph", true, [](const G &g, int) { return keyOf(g.getDirectedGraph(), false); });
            add("getNeighbours(each)", false, [](const G &g, int) {
                std::string s;
                for (VertexIndex v = 0; v < g.getSize(); ++v) s += ser(g.getNeighbours(v));
                return s;
            });
        }
        add("hasEdge(i,j,label)+getEdgeLabel", false, [](const G &g, int) {
            std::string s;
            for (VertexIndex i = 0; i < g.getSize(); ++i)
                for (VertexIndex j = 0; j < g.getSize(); ++j) s += (g.hasEdge(i, j, LabelAlpha<L>::value(1)) ? "1" : "0") + labelStr(g.getEdgeLabel(i, j, false));
            return s;
        });
        add("getSubgraph", true, [](const G &g, int) {
            std::unordered_set<VertexIndex> S;
            for (VertexIndex v = 0; v < g.getSize(); v += 1)
                if (v != 1) S.insert(v);
            return keyOf(algorithms::getSubgraph(g, S), false);
        });
        add("getSubgraphWithRemap", true, [](const G &g, int) {
            std::unordered_set<VertexIndex> S;
            for (VertexIndex v = 0; v < g.getSize(); v += 1)
                if (v != 0) S.insert(v);
            auto r = algorithms::getSubgraphWithRemap(g, S);
            return std::to_string(r.first.getSize()) + "/" + std::to_string(r.first.getEdgeNumber()) + "/" + std::to_string(r.second.size());
        });
        add("findVertexPredecessors", true, [](const G &g, int) {
            std::string s;
            for (VertexIndex v = 0; v < g.getSize(); ++v) { auto r = algorithms::findVertexPredecessors(g, v); s += ser(r.first) + ser(r.second); }
            return s;
        });
        add("findAllVertexPredecessors", true, [](const G &g, int) {
            std::string s;
            for (VertexIndex v = 0; v < g.getSize(); ++v) {
                auto r = algorithms::findAllVertexPredecessors(g, v);
                s += ser(r.first);
                for (auto &l : r.second) s += ser(l);
            }
            return s;
        });
        add("findGeodesics+findAllGeodesics", false, [](const G &g, int) {
            std::string s;
            for (VertexIndex a = 0; a < g.getSize(); ++a)
                for (VertexIndex b = 0; b < g.getSize(); ++b) {
                    s += ser(algorithms::findGeodesics(g, a, b));
                    for (auto &p : algorithms::findAllGeodesics(g, a, b)) s += ser(p);
                }
            return s;
        });
        add("find(All)GeodesicsFromVertex", false, [](const G &g, int) {
            std::string s;
            if (g.getSize() == 0) return s;
            VertexIndex src = (VertexIndex)g.getSize() - 1;
            for (auto &p : algorithms::findGeodesicsFromVertex(g, src)) s += ser(p);
            for (auto &ps : algorithms::findAllGeodesicsFromVertex(g, src))
                for (auto &p : ps) s += ser(p);
            return s;
        });
        add("path rebuilding helpers", false, [](const G &g, int) {
            std::string s;
            if (g.getSize() < 2) return s;
            VertexIndex src = (VertexIndex)g.getSize() - 2;
            auto p = algorithms::findVertexPredecessors(g, src);
            auto q = algorithms::findAllVertexPredecessors(g, src);
            for (VertexIndex t = 0; t < g.getSize(); ++t)
                if (p.first[t] != (size_t)std::numeric_limits<VertexIndex>::max()) {
                    s += ser(algorithms::findPathToVertexFromPredecessors(g, src, t, p));
                    for (auto &x : algorithms::findMultiplePathsToVertexFromPredecessors(g, src, t, q)) s += ser(x);
                }
            return s;
        });
        add("writeTextEdgeList", true, [](const G &g, int tid) {
            std::string f = g_tmpdir + "/t" + std::to_string(tid) + ".txt";
            if constexpr (T::labelled) io::writeTextEdgeList(g, f, std::function<std::string(const L &)>([](const L &l) { return labelStr(l); }));
            else io::writeTextEdgeList(g, f);
            return slurp(f);
        });
        // distinct files whose names differ only in the part after the last dot
        add("writeTextEdgeList (same stem, other extension)", true, [](const G &g, int tid) {
            std::string f = g_tmpdir + "/shared.t" + std::to_string(tid);
            if constexpr (T::labelled) io::writeTextEdgeList(g, f, std::function<std::string(const L &)>([](const L &l) { return labelStr(l); }));
            else io::writeTextEdgeList(g, f);
            return slurp(f);
        });
        if constexpr (std::is_trivially_copyable<L>::value)
            add("writeBinaryEdgeList (same stem, other extension)", false, [](const G &g, int tid) {
                std::string f = g_tmpdir + "/shared.b" + std::to_string(tid);
                io::writeBinaryEdgeList(g, f);
                return slurp(f);
            });
        if constexpr (std::is_trivially_copyable<L>::value)
            add("writeBinaryEdgeList", true, [](const G &g, int tid) {
                std::string f = g_tmpdir + "/t" + std::to_string(tid) + ".bin";
                io::writeBinaryEdgeList(g, f);
                return slurp(f);
            });
    } else {
        add("asLabeledGraph searches", true, [](const G &g, int) {
            std::string s;
            const auto &l = g.asLabeledGraph();
            for (VertexIndex v = 0; v < g.getSize(); ++v) { auto r = algorithms::findAllVertexPredecessors(l, v); s += ser(r.first); }
            return s;
        });
        add("asLabeledGraph writers", true, [](const G &g, int tid) {
            std::string f = g_tmpdir + "/t" + std::to_string(tid) + ".txt", b = g_tmpdir + "/t" + std::to_string(tid) + ".bin";
            io::writeTextEdgeList(g.asLabeledGraph(), f);
            io::writeBinaryEdgeList(g.asLabeledGraph(), b);
            return slurp(f) + "|" + slurp(b);
        });
    }
    if constexpr (T::fam == MULTI) {
        add("getEdgeMultiplicity+total", true, [](const G &g, int) {
            std::string s = std::to_string(g.getTotalEdgeNumber()) + ":";
            for (VertexIndex i = 0; i < g.getSize(); ++i)
                for (VertexIndex j = 0; j < g.getSize(); ++j) s += std::to_string(g.getEdgeMultiplicity(i, j)) + ",";
            return s;
        });
    }
    if constexpr (T::fam == WEIGHTED) {
        add("getWeightMatrix+total", true, [](const G &g, int) { return matStr(g.getWeightMatrix()) + hexd((double)g.getTotalWeight()); });
        add("findGeodesicsDijkstra", true, [](const G &g, int) {
            std::string s;
            for (VertexIndex v = 0; v < g.getSize(); ++v) {
                auto r = algorithms::findGeodesicsDijkstra(g, v);
                for (double d : r.first) s += hexd(d) + ",";
                s += ser(r.second);
            }
            return s;
        });
    }
    // composites: two const calls in a row by the same thread (state that is only shared after a particular
    // sequence of const calls), over a reduced core
    std::vector<size_t> seqCore;
    for (size_t i = 0; i < ops.size(); ++i) {
        const std::string &n = ops[i].name;
        if (n == "key(all getters)" || n == "edges()" || n == "getAdjacencyMatrix" || n == "getInDegrees" || n == "getDegrees" || n == "getReversedGraph" || n == "getDirectedGraph" ||
            n == "findAllVertexPredecessors" || n == "writeTextEdgeList" || n == "getWeightMatrix+total" || n == "findGeodesicsDijkstra" || n == "getEdgeMultiplicity+total" || n == "asLabeledGraph searches")
            seqCore.push_back(i);
    }
    size_t base = ops.size();
    for (size_t a : seqCore)
        for (size_t b : seqCore) {
            auto fa = ops[a].fn, fb = ops[b].fn;
            ConstOp<G> c;
            c.name = ops[a].name + " ; " + ops[b].name;
            c.fn = [fa, fb](const G &g, int tid) {
                std::string r = fa(g, tid);
                sch_point();
                return r + "||" + fb(g, tid);
            };
            c.core = false;
            c.seq = true;
            ops.push_back(c);
        }
    (void)base;
    return ops;
}

// Shapes of the shared graph.  0: the two lowest vertices are isolated, edges among 2..4 incl. a loop;
// 1: three vertices, no edge; 2: dense three-vertex graph incl. vertex 0 and a loop.
template <class G> G makeShape(int shape) {
    using T = Tr<G>;
    using L = typename T::Label;
    auto add = [](G &g, unsigned i, unsigned j, int k) {
        if constexpr (T::fam == PLAIN) {
            if constexpr (T::labelled) g.addEdge(i, j, LabelAlpha<L>::value(1 + k % 2));
            else g.addEdge(i, j);
        } else if constexpr (T::fam == MULTI) g.addMultiedge(i, j, 1 + k % 3);
        else g.addEdge(i, j, 0.5 * (1 + k));
    };
    if (shape == 0) {
        G g(5);
        add(g, 3, 4, 0); add(g, 2, 3, 1); add(g, 4, 2, 2); add(g, 3, 3, 3); add(g, 2, 4, 4);
        return g;
    }
    if (shape == 1) return G(3);
    if (shape == 3) { // a graph with a LONG mutation history (counters, lazily maintained data, amortised clean-ups)
        G g(4);
        for (int round = 0; round < 12; ++round) {
            add(g, round % 4, (round + 1) % 4, round);
            add(g, (round + 2) % 4, round % 4, round + 1);
            if constexpr (T::fam == WEIGHTED) { g.setEdgeWeight(round % 4, (round + 1) % 4, 0.25 * round); g.setEdgeWeight((round + 2) % 4, round % 4, 2.0); }
            else if constexpr (T::fam == MULTI) { g.setEdgeMultiplicity(round % 4, (round + 1) % 4, 1 + round % 3); g.removeMultiedge((round + 2) % 4, round % 4, 1); }
            else if constexpr (T::labelled) g.setEdgeLabel(round % 4, (round + 1) % 4, LabelAlpha<L>::value(1 + round % 2));
            g.removeEdge((round + 2) % 4, round % 4);
            if (round % 5 == 4) g.removeVertexFromEdgeList(round % 4);
            if (round % 6 == 5) { g.removeSelfLoops(); g.removeDuplicateEdges(); }
        }
        add(g, 3, 3, 1); add(g, 1, 2, 2); add(g, 2, 1, 3);
        return g;
    }
    G g(3);
    add(g, 0, 1, 0); add(g, 1, 2, 1); add(g, 2, 0, 2); add(g, 1, 1, 3); add(g, 0, 2, 4);
    return g;
}

// --------------------------------------------------------------------------------- one execution
template <class G> struct Exec {
    const G *shared;
    const std::vector<ConstOp<G>> *ops;
    std::vector<int> opIdx;           // operation of each thread
    std::vector<std::string> results; // per thread
    std::vector<std::string> errors;
    pthread_barrier_t *barrier = nullptr;
};
template <class G> struct ThreadArg { Exec<G> *ex; int id; };

template <class G> void *threadMain(void *p) {
    ThreadArg<G> *a = (ThreadArg<G> *)p;
    Exec<G> &ex = *a->ex;
    if (ex.barrier) pthread_barrier_wait(ex.barrier);
    sch_thread_begin(a->id);
    try {
        ex.results[a->id] = (*ex.ops)[ex.opIdx[a->id]].fn(*ex.shared, a->id);
    } catch (const std::exception &e) {
        ex.errors[a->id] = std::string("threw ") + e.what();
    } catch (...) { ex.errors[a->id] = "threw a non-std exception"; }
    sch_thread_end(a->id);
    return nullptr;
}

struct Point { int running, mask, choice; };

template <class G> struct Harness {
    std::string cfgName;
    Reporter &rep;
    std::vector<ConstOp<G>> ops = constOps<G>();
    unsigned long long executions = 0, pointsTotal = 0, maxPoints = 0, pairsDone = 0;
    std::set<std::string> distinctOutcomes;
    int mode = 1, bound = 2;
    Harness(const std::string &n, Reporter &r) : cfgName(n), rep(r) {}

    // runs one schedule; returns the recorded points
    std::vector<Point> run(int shape, const std::vector<int> &opIdx, const std::vector<int> &prefix, const std::vector<std::string> &baseline, const std::string &freshKey, bool freeRunning) {
        G shared = makeShape<G>(shape); // a FRESH object per execution: no thread has ever touched it
        preparePartners(makeShape<G>(shape), (int)opIdx.size()); // from ANOTHER identically built object: no call, not even a const one, is made on `shared` before the threads start
        Exec<G> ex;
        ex.shared = &shared;
        ex.ops = &ops;
        ex.opIdx = opIdx;
        int k = (int)opIdx.size();
        ex.results.assign(k, "");
        ex.errors.assign(k, "");
        pthread_barrier_t bar;
        if (freeRunning) { pthread_barrier_init(&bar, nullptr, k); ex.barrier = &bar; }
        sch_reset(k, prefix.data(), (int)prefix.size(), freeRunning ? 0 : mode);
        std::vector<pthread_t> th(k);
        std::vector<ThreadArg<G>> args(k);
        for (int i = 0; i < k; ++i) { args[i] = {&ex, i}; pthread_create(&th[i], nullptr, threadMain<G>, &args[i]); }
        sch_start();
        for (int i = 0; i < k; ++i) pthread_join(th[i], nullptr);
        if (freeRunning) pthread_barrier_destroy(&bar);
        ++executions;
        progressTick(); // main thread only: the watchdog must see that schedules are being completed
        std::vector<Point> pts;
        int np = sch_npoints();
        for (int i = 0; i < np; ++i) { Point p; sch_trace(i, &p.running, &p.mask, &p.choice); pts.push_back(p); }
        pointsTotal += np;
        maxPoints = std::max<unsigned long long>(maxPoints, np);
        std::string sched;
        for (auto &p : pts) sched += std::to_string(p.choice);
        std::string what = "shape " + std::to_string(shape) + ", threads [" ;
        for (int i = 0; i < k; ++i) what += (i ? " | " : "") + ops[opIdx[i]].name;
        what += "], schedule " + (freeRunning ? std::string("free-running") : sched);
        std::string replay = "--shape " + std::to_string(shape) + " --ops " + vecToStr(opIdx) + " --schedule " + (prefix.empty() ? "-" : vecToStr(prefix));
        if (sch_error() == 1) rep.violation("HARNESS-NONDETERMINISM:C18:" + cfgName + ":replay", "schedule prefix could not be replayed (a chosen thread was not enabled): " + what, replay);
        if (sch_error() == 2) rep.violation("C18:" + cfgName + ":deadlock", "every unfinished thread is blocked on a lock: " + what, replay);
        if (sch_overflow()) rep.cap(cfgName + ": more than 8192 switch points in one execution; later points follow the default policy");
        std::string outcome;
        for (int i = 0; i < k; ++i) {
            outcome += ex.results[i] + "#";
            if (!ex.errors[i].empty()) rep.violation("C18:" + cfgName + ":exception:" + ops[opIdx[i]].name, "thread " + std::to_string(i) + " " + ex.errors[i] + "; " + what, replay);
            else if (ex.results[i] != baseline[opIdx[i]])
                rep.violation("C18:" + cfgName + ":result:" + ops[opIdx[i]].name, "thread " + std::to_string(i) + " obtained a result that differs from the single-threaded one; " + what + "; got " + ex.results[i].substr(0, 300) + " expected " + baseline[opIdx[i]].substr(0, 300), replay);
        }
        distinctOutcomes.insert(std::to_string(shape) + vecToStr(opIdx) + outcome);
        if (keyOf(shared, false) != freshKey) rep.violation("C18:" + cfgName + ":mutated", "the shared graph changed under read-only use; " + what, replay);
        return pts;
    }

    // iterative context bounding over one tuple of operations
    void explore(int shape, const std::vector<int> &opIdx, const std::vector<std::string> &baseline, const std::string &freshKey) {
        struct Item { std::vector<int> prefix; int preemptions; };
        std::vector<Item> stack = {{{}, 0}};
        while (!stack.empty()) {
            Item it = stack.back();
            stack.pop_back();
            auto pts = run(shape, opIdx, it.prefix, baseline, freshKey, false);
            // preemptions used by the prefix part are known (it.preemptions); walk the default tail
            int pre = it.preemptions;
            for (size_t i = it.prefix.size(); i < pts.size(); ++i) {
                const Point &p = pts[i];
                for (int t = 0; t < (int)opIdx.size(); ++t) {
                    if (t == p.choice || !(p.mask >> t & 1)) continue;
                    int cost = pre + ((p.running >= 0 && t != p.running) ? 1 : 0);
                    if (cost > bound) continue;
                    Item nx;
                    for (size_t q = 0; q < i; ++q) nx.prefix.push_back(pts[q].choice);
                    nx.prefix.push_back(t);
                    nx.preemptions = cost;
                    stack.push_back(nx);
                }
                // the default continuation at point i costs nothing (it keeps the running thread when enabled)
            }
            if (rep.violations() > 50 || clock_().expired()) return;
        }
    }

    bool seqOnly = false, smallCore = false;
    static bool inSmallCore(const std::string &n) {
        static const std::set<std::string> k = {"key(all getters)", "edges()", "getAdjacencyMatrix", "operator== vs private copy", "operator== vs equal graph built in another order", "getInDegrees", "getDegrees", "getReversedGraph", "getDirectedGraph", "getSubgraph",
                                                "findAllVertexPredecessors", "writeTextEdgeList", "getWeightMatrix+total", "findGeodesicsDijkstra", "getEdgeMultiplicity+total", "asLabeledGraph searches"};
        return k.count(n) != 0;
    }
    std::set<int> shapesWanted;
    void all(bool coreOnly, int nThreads) {
        for (int shape = 0; shape < 4; ++shape) {
            if (!shapesWanted.empty() && !shapesWanted.count(shape)) continue;
            // baseline on ANOTHER, identically built object; never on the shared one
            G base = makeShape<G>(shape);
            preparePartners(base, 0);
            std::vector<std::string> baseline;
            for (auto &op : ops) baseline.push_back(op.fn(base, 99));
            std::string freshKey = keyOf(makeShape<G>(shape), false);
            std::vector<int> idx;
            for (int i = 0; i < (int)ops.size(); ++i)
                if (seqOnly ? ops[i].seq : (!ops[i].seq && (!coreOnly || ops[i].core) && (!smallCore || inSmallCore(ops[i].name)))) idx.push_back(i);
            std::vector<int> tuple(nThreads, 0);
            // all multisets of size nThreads
            std::function<void(int, int)> rec = [&](int pos, int from) {
                if (pos == nThreads) {
                    std::vector<int> opIdx;
                    for (int t : tuple) opIdx.push_back(idx[t]);
                    printf("TUPLE %s shape %d: %s\n", cfgName.c_str(), shape, [&] { std::string s; for (int o : opIdx) s += ops[o].name + " | "; return s; }().c_str());
                    fflush(stdout);
                    ++pairsDone;
                    if (mode == 0) { for (int r = 0; r < 6; ++r) run(shape, opIdx, {}, baseline, freshKey, true); }
                    else explore(shape, opIdx, baseline, freshKey);
                    return;
                }
                for (int t = from; t < (int)idx.size(); ++t) {
                    tuple[pos] = t;
                    rec(pos + 1, t);
                    if (rep.violations() > 50) return;
                    if (clock_().expired()) { rep.cap(cfgName + ": deadline reached"); return; }
                }
            };
            rec(0, 0);
        }
    }
};

template <class G> int runOne(const std::string &name, const Args &args) {
    Reporter rep;
    rep.property = "C18";
    std::string modeS = args.get("mode", "coarse");
    rep.config = name + "/" + modeS + "/k" + args.get("threads", "2") + "/p" + args.get("bound", "2");
    rep.tier = args.get("tier", "quick");
    Harness<G> h(rep.config, rep);
    h.mode = modeS == "free" ? 0 : (modeS == "coarse" ? 1 : 2);
    h.bound = (int)args.getInt("bound", 2);
    int nThreads = (int)args.getInt("threads", 2);
    if (args.has("ops")) { // replay of one schedule
        std::vector<int> opIdx, sched;
        for (auto &t : split(args.get("ops", "").substr(1, args.get("ops", "").size() - 2), ',')) opIdx.push_back(atoi(t.c_str()));
        std::string sc = args.get("schedule", "-");
        if (sc != "-")
            for (auto &t : split(sc.substr(1, sc.size() - 2), ',')) sched.push_back(atoi(t.c_str()));
        int shape = (int)args.getInt("shape", 0);
        G base = makeShape<G>(shape);
        preparePartners(base, 0);
        std::vector<std::string> baseline;
        for (auto &op : h.ops) baseline.push_back(op.fn(base, 99));
        for (int round = 0; round < 2; ++round) h.run(shape, opIdx, sched, baseline, keyOf(makeShape<G>(shape), false), false);
        for (auto &v : rep.bySig)
            for (auto &x : v.second) printf("REPRODUCED %s: %s\n", x.signature.c_str(), x.detail.c_str());
        return rep.violations() ? 1 : 0;
    }
    if (args.has("shapes"))
        for (auto &t : split(args.get("shapes", ""), ',')) h.shapesWanted.insert(atoi(t.c_str()));
    h.smallCore = args.has("smallcore");
    h.seqOnly = args.has("seq");
    if (h.seqOnly) { rep.config += "/seq"; h.cfgName = rep.config; }
    h.all(args.has("core"), nThreads);
    rep.count("executions", (long long)h.executions);
    rep.count("switch_points", (long long)h.pointsTotal);
    rep.count("max_points_in_one_execution", (long long)h.maxPoints);
    rep.count("op_tuples", (long long)h.pairsDone);
    rep.count("operations", (long long)h.ops.size());
    rep.count("distinct_outcomes", (long long)h.distinctOutcomes.size());
    JObj s;
    std::string names;
    for (auto &o : h.ops) names += o.name + "; ";
    s.str("config", rep.config).num("executions", (long long)h.executions).str("operations", names);
    rep.sample(s.render());
    std::string out = args.get("out", "");
    if (!out.empty() && !rep.write(out)) return 2;
    printf("C18 %s: tuples=%llu executions=%llu points=%llu maxpoints=%llu violations=%llu wall=%.1fs\n", rep.config.c_str(), h.pairsDone, h.executions, h.pointsTotal, h.maxPoints, rep.violations(), clock_().elapsed());
    return args.has("exitcode") && rep.violations() ? 1 : 0;
}

// Canary: the harness must NOT be blind.  Two scheduled threads write the same plain int; ThreadSanitizer
// has to report it although the executions are serialised.  Run by the driver with exitcode=66 expected.
static int g_canary;
static void *canaryThread(void *p) {
    int id = (int)(long)p;
    sch_thread_begin(id);
    g_canary = g_canary + id + 1;
    sch_thread_end(id);
    return nullptr;
}

int main(int argc, char **argv) {
    Args args(argc, argv);
    (void)clock_();
    installWatchdog(60);
    if (args.has("deadline")) clock_().deadlineS = (double)args.getInt("deadline", 100000);
    g_tmpdir = args.get("tmpdir", ".");
    std::string config = args.get("config", "");
    if (config == "canary") {
        sch_reset(2, nullptr, 0, 1);
        pthread_t a, b;
        pthread_create(&a, nullptr, canaryThread, (void *)0L);
        pthread_create(&b, nullptr, canaryThread, (void *)1L);
        sch_start();
        pthread_join(a, nullptr);
        pthread_join(b, nullptr);
        printf("canary finished, value %d\n", g_canary);
        return 0;
    }
#if GROUP == 0 || GROUP == -1
    if (config == "dir_NoLabel") return runOne<LabeledDirectedGraph<NoLabel>>(config, args);
#endif
#if GROUP == 1 || GROUP == -1
    if (config == "und_NoLabel") return runOne<LabeledUndirectedGraph<NoLabel>>(config, args);
#endif
#if GROUP == 2 || GROUP == -1
    if (config == "dir_int") return runOne<LabeledDirectedGraph<int>>(config, args);
#endif
#if GROUP == 3 || GROUP == -1
    if (config == "und_string") return runOne<LabeledUndirectedGraph<std::string>>(config, args);
#endif
#if GROUP == 4 || GROUP == -1
    if (config == "dmulti") return runOne<DirectedMultigraph>(config, args);
#endif
#if GROUP == 5 || GROUP == -1
    if (config == "umulti") return runOne<UndirectedMultigraph>(config, args);
#endif
#if GROUP == 6 || GROUP == -1
    if (config == "dweighted") return runOne<DirectedWeightedGraph>(config, args);
#endif
#if GROUP == 7 || GROUP == -1
    if (config == "uweighted") return runOne<UndirectedWeightedGraph>(config, args);
#endif
    fprintf(stderr, "config %s is not in group %d\n", config.c_str(), GROUP);
    return 2;
}
