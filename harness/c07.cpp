// C07: invalid calls are rejected with the documented exception and change nothing.
// For every reachable state (E1 search) of one class, every public entry point that takes a vertex index
// is called with every argument position out of range (size, size+1, UINT_MAX) while the other
// positions take every valid value; plus resize-down, unforced setEdgeLabel and getEdgeLabel/Weight on
// every absent pair.  Built with ASan+UBSan: an out-of-bounds access aborts the worker (the driver
// reports the breadcrumb).
#include "../mc/e1.hpp"

#include "BaseGraph/algorithms/paths.hpp"
#include "BaseGraph/algorithms/topology.hpp"

using namespace verif;
using namespace BaseGraph;

#ifndef GROUP
#define GROUP -1
#endif

static unsigned long long g_calls = 0, g_nontrivial = 0;
static std::set<std::string> g_entryPoints;

template <class G> struct Invalid {
    using T = Tr<G>;
    using L = typename T::Label;
    const G &orig;
    const Model &m;
    ClauseSink &sink;
    G c;
    std::string keyBefore;
    bool huge = false; // very large graph: cheap key, only the extreme valid indices in the other argument positions
    std::string key(const G &g) const {
        if (!huge) return keyOf(g, true);
        std::string k = std::to_string(g.getSize()) + "|" + std::to_string(g.getEdgeNumber()) + "|";
        for (VertexIndex v : {(VertexIndex)0, (VertexIndex)(g.getSize() - 1)})
            for (auto w : g.getOutNeighbours(v)) k += std::to_string(w) + ",";
        return k;
    }
    Invalid(const G &g, const Model &m, ClauseSink &s, bool huge_ = false) : orig(g), m(m), sink(s), c(g), huge(huge_) { keyBefore = key(g); }

    // run one call that must be rejected with `want`
    template <class F> void reject(const std::string &entry, const std::string &text, Outcome want, F &&fn) {
        ++g_calls;
        if (!m.e.empty()) ++g_nontrivial; // "changed nothing" is only a meaningful verdict when there is something to change
        g_entryPoints.insert(entry);
        breadcrumb("C07 state " + m.str() + " call " + text);
        Outcome got = OK;
        std::string what;
        try {
            fn(c);
        } catch (...) {
            got = classifyCurrentException(&what);
        }
        ++sink.evaluated;
        bool bad = false;
        if (got != want) {
            sink.fail("rejected." + entry, text + " on " + m.str() + ": " + outcomeName(got) + (what.empty() ? "" : " (" + what + ")") + ", expected " + outcomeName(want));
            bad = true;
        }
        std::string after;
        try {
            after = key(c);
        } catch (...) { after = "<key computation threw>"; }
        ++sink.evaluated;
        if (after != keyBefore || !(c == orig) || !(orig == c)) {
            sink.fail("unchanged." + entry, text + " on " + m.str() + " changed the graph: public-API key before " + keyBefore + ", after " + after + ", equal to a copy taken before the call: " +
                                                std::to_string((int)(c == orig)));
            bad = true;
        }
        if (bad) c = orig;
    }

    void run() {
        const unsigned n = m.n;
        const std::vector<unsigned> badValues = {n, n + 1, UINT_MAX};
        std::vector<unsigned> valid;
        if (!huge) for (unsigned v = 0; v < n; ++v) valid.push_back(v);
        else valid = {0, n - 1};
        auto S = [](unsigned v) { return v == UINT_MAX ? std::string("UINT_MAX") : std::to_string(v); };

        // ---- one-vertex entry points
        auto one = [&](const std::string &entry, auto fn) {
            for (unsigned b : badValues) reject(entry, entry + "(" + S(b) + ")", THROW_OUT_OF_RANGE, [&](G &g) { fn(g, b); });
        };
        // ---- two-vertex entry points: (bad, valid*), (valid*, bad), (bad, bad), (bad, other bad)
        auto two = [&](const std::string &entry, auto fn) {
            std::vector<std::pair<unsigned, unsigned>> cases;
            for (unsigned b : badValues) {
                for (unsigned v : valid) {
                    cases.emplace_back(b, v);
                    cases.emplace_back(v, b);
                }
                cases.emplace_back(b, b);
            }
            cases.emplace_back(n, UINT_MAX);
            cases.emplace_back(UINT_MAX, n + 1);
            for (auto &pr : cases)
                reject(entry, entry + "(" + S(pr.first) + "," + S(pr.second) + ")", THROW_OUT_OF_RANGE, [&](G &g) { fn(g, pr.first, pr.second); });
        };

        one("getOutNeighbours", [](G &g, unsigned v) { (void)g.getOutNeighbours(v); });
        one("removeVertexFromEdgeList", [](G &g, unsigned v) { g.removeVertexFromEdgeList(v); });
        two("hasEdge", [](G &g, unsigned i, unsigned j) { (void)g.hasEdge(i, j); });
        two("removeEdge", [](G &g, unsigned i, unsigned j) { g.removeEdge(i, j); });
        if constexpr (T::directed) {
            one("getInDegree", [](G &g, unsigned v) { (void)g.getInDegree(v); });
            one("getOutDegree", [](G &g, unsigned v) { (void)g.getOutDegree(v); });
        } else {
            one("getDegree(v,true)", [](G &g, unsigned v) { (void)g.getDegree(v, true); });
            one("getDegree(v,false)", [](G &g, unsigned v) { (void)g.getDegree(v, false); });
        }
        if constexpr (T::fam == PLAIN) {
            one("assertVertexInRange", [](G &g, unsigned v) { g.assertVertexInRange(v); });
            if constexpr (!T::directed) one("getNeighbours", [](G &g, unsigned v) { (void)g.getNeighbours(v); });
            for (int force = 0; force < 2; ++force) {
                std::string f = force ? "force=true" : "force=false";
                two("addEdge(i,j," + f + ")", [force](G &g, unsigned i, unsigned j) { g.addEdge(i, j, (bool)force); });
                two("addEdge(i,j,label," + f + ")", [force](G &g, unsigned i, unsigned j) { g.addEdge(i, j, LabelAlpha<L>::value(LabelAlpha<L>::count - 1), (bool)force); });
                if constexpr (T::directed) {
                    two("addReciprocalEdge(i,j," + f + ")", [force](G &g, unsigned i, unsigned j) { g.addReciprocalEdge(i, j, (bool)force); });
                    two("addReciprocalEdge(i,j,label," + f + ")", [force](G &g, unsigned i, unsigned j) { g.addReciprocalEdge(i, j, LabelAlpha<L>::value(LabelAlpha<L>::count - 1), (bool)force); });
                }
                two("setEdgeLabel(i,j,label," + f + ")", [force](G &g, unsigned i, unsigned j) { g.setEdgeLabel(i, j, LabelAlpha<L>::value(LabelAlpha<L>::count - 1), (bool)force); });
            }
            two("hasEdge(i,j,label)", [](G &g, unsigned i, unsigned j) { (void)g.hasEdge(i, j, LabelAlpha<L>::value(0)); });
            two("getEdgeLabel(i,j,true)", [](G &g, unsigned i, unsigned j) { (void)g.getEdgeLabel(i, j, true); });
            two("getEdgeLabel(i,j,false)", [](G &g, unsigned i, unsigned j) { (void)g.getEdgeLabel(i, j, false); });
            // subgraph extraction with a vertex set that contains an out-of-range member
            for (unsigned b : badValues)
                for (unsigned mask = 0; mask < (huge ? 1u : (1u << n)); ++mask) {
                    std::unordered_set<VertexIndex> set = {b};
                    std::string st = "{" + S(b);
                    for (unsigned v = 0; v < n && !huge; ++v)
                        if (mask & (1u << v)) { set.insert(v); st += "," + std::to_string(v); }
                    st += "}";
                    reject("getSubgraph", "getSubgraph(g," + st + ")", THROW_OUT_OF_RANGE, [&](G &g) { (void)algorithms::getSubgraph(g, set); });
                    reject("getSubgraphWithRemap", "getSubgraphWithRemap(g," + st + ")", THROW_OUT_OF_RANGE, [&](G &g) { (void)algorithms::getSubgraphWithRemap(g, set); });
                    // the same members inserted in the opposite order (valid ones first, the bad one last) and into a
                    // set with many buckets: the enumeration order of an unordered_set depends on both
                    std::unordered_set<VertexIndex> set2;
                    set2.reserve(64);
                    for (unsigned v = 0; v < n && !huge; ++v)
                        if (mask & (1u << v)) set2.insert(v);
                    set2.insert(b);
                    reject("getSubgraph", "getSubgraph(g," + st + " bad member inserted last)", THROW_OUT_OF_RANGE, [&](G &g) { (void)algorithms::getSubgraph(g, set2); });
                    reject("getSubgraphWithRemap", "getSubgraphWithRemap(g," + st + " bad member inserted last)", THROW_OUT_OF_RANGE, [&](G &g) { (void)algorithms::getSubgraphWithRemap(g, set2); });
                }
            // path searches from / to a vertex that does not exist
            one("findVertexPredecessors", [](G &g, unsigned v) { (void)algorithms::findVertexPredecessors(g, v); });
            one("findAllVertexPredecessors", [](G &g, unsigned v) { (void)algorithms::findAllVertexPredecessors(g, v); });
            one("findGeodesicsFromVertex", [](G &g, unsigned v) { (void)algorithms::findGeodesicsFromVertex(g, v); });
            one("findAllGeodesicsFromVertex", [](G &g, unsigned v) { (void)algorithms::findAllGeodesicsFromVertex(g, v); });
            two("findGeodesics", [](G &g, unsigned i, unsigned j) { (void)algorithms::findGeodesics(g, i, j); });
            two("findAllGeodesics", [](G &g, unsigned i, unsigned j) { (void)algorithms::findAllGeodesics(g, i, j); });
        }
        if constexpr (T::fam == MULTI) {
            for (int force = 0; force < 2; ++force) {
                std::string f = force ? "force=true" : "force=false";
                two("addEdge(i,j," + f + ")", [force](G &g, unsigned i, unsigned j) { g.addEdge(i, j, (bool)force); });
                for (unsigned k : {0u, 2u})
                    two("addMultiedge(i,j," + std::to_string(k) + "," + f + ")", [force, k](G &g, unsigned i, unsigned j) { g.addMultiedge(i, j, k, (bool)force); });
                if constexpr (T::directed) {
                    two("addReciprocalEdge(i,j," + f + ")", [force](G &g, unsigned i, unsigned j) { g.addReciprocalEdge(i, j, (bool)force); });
                    two("addReciprocalMultiedge(i,j,2," + f + ")", [force](G &g, unsigned i, unsigned j) { g.addReciprocalMultiedge(i, j, 2, (bool)force); });
                }
            }
            for (unsigned k : {0u, 1u, 5u}) {
                two("removeMultiedge(i,j," + std::to_string(k) + ")", [k](G &g, unsigned i, unsigned j) { g.removeMultiedge(i, j, k); });
                two("setEdgeMultiplicity(i,j," + std::to_string(k) + ")", [k](G &g, unsigned i, unsigned j) { g.setEdgeMultiplicity(i, j, k); });
            }
            two("getEdgeMultiplicity", [](G &g, unsigned i, unsigned j) { (void)g.getEdgeMultiplicity(i, j); });
            // the searches reach the multigraph through asLabeledGraph()
            one("findVertexPredecessors(asLabeledGraph)", [](G &g, unsigned v) { (void)algorithms::findVertexPredecessors(g.asLabeledGraph(), v); });
            two("findGeodesics(asLabeledGraph)", [](G &g, unsigned i, unsigned j) { (void)algorithms::findGeodesics(g.asLabeledGraph(), i, j); });
        }
        if constexpr (T::fam == WEIGHTED) {
            for (int force = 0; force < 2; ++force) {
                std::string f = force ? "force=true" : "force=false";
                two("addEdge(i,j,w," + f + ")", [force](G &g, unsigned i, unsigned j) { g.addEdge(i, j, 2.0, (bool)force); });
                if constexpr (T::directed) two("addReciprocalEdge(i,j," + f + ")", [force](G &g, unsigned i, unsigned j) { g.addReciprocalEdge(i, j, (bool)force); });
            }
            two("setEdgeWeight", [](G &g, unsigned i, unsigned j) { g.setEdgeWeight(i, j, 0.25); });
            two("getEdgeWeight(i,j,true)", [](G &g, unsigned i, unsigned j) { (void)g.getEdgeWeight(i, j, true); });
            two("getEdgeWeight(i,j,false)", [](G &g, unsigned i, unsigned j) { (void)g.getEdgeWeight(i, j, false); });
            two("hasEdge(i,j,weight)", [](G &g, unsigned i, unsigned j) { (void)g.hasEdge(i, j, 2.0); });
            one("findGeodesicsDijkstra", [](G &g, unsigned v) { (void)algorithms::findGeodesicsDijkstra(g, v); });
            one("findAllVertexPredecessors(asLabeledGraph)", [](G &g, unsigned v) { (void)algorithms::findAllVertexPredecessors(g.asLabeledGraph(), v); });
            two("findAllGeodesics(asLabeledGraph)", [](G &g, unsigned i, unsigned j) { (void)algorithms::findAllGeodesics(g.asLabeledGraph(), i, j); });
        }

        // ---- std::invalid_argument cases
        for (unsigned k = 0; k < n; k += (huge ? n - 1 : 1)) reject("resize(smaller)", "resize(" + std::to_string(k) + ")", THROW_INVALID_ARGUMENT, [&](G &g) { g.resize(k); });
        for (unsigned i = 0; i < n && !huge; ++i)
            for (unsigned j = 0; j < n; ++j) {
                if (m.find(i, j)) continue;
                std::string pr = "(" + std::to_string(i) + "," + std::to_string(j) + ")";
                if constexpr (T::fam == PLAIN && T::labelled) {
                    reject("setEdgeLabel(absent)", "setEdgeLabel" + pr + " unforced on an absent edge", THROW_INVALID_ARGUMENT, [&](G &g) { g.setEdgeLabel(i, j, LabelAlpha<L>::value(1)); });
                    reject("getEdgeLabel(absent)", "getEdgeLabel" + pr + " on an absent edge", THROW_INVALID_ARGUMENT, [&](G &g) { (void)g.getEdgeLabel(i, j); });
                    // setEdgeLabel(..., force=true) is documented to store a label even though the edge does not exist; the
                    // edge still does not exist afterwards, so the UNFORCED call must still be rejected and change nothing
                    {
                        ++g_calls;
                        g_entryPoints.insert("setEdgeLabel(absent, label stored by a forced call)");
                        breadcrumb("C07 state " + m.str() + " forced then unforced setEdgeLabel" + pr);
                        G o(orig);
                        o.setEdgeLabel(i, j, LabelAlpha<L>::value(2), true);
                        G before(o);
                        const std::string kb = keyOf(before, true);
                        Outcome got = OK;
                        try { o.setEdgeLabel(i, j, LabelAlpha<L>::value(1)); } catch (...) { got = classifyCurrentException(); }
                        ++sink.evaluated;
                        if (got != THROW_INVALID_ARGUMENT)
                            sink.fail("rejected.setEdgeLabel(absent)", "setEdgeLabel" + pr + " unforced on an absent edge, after setEdgeLabel" + pr + " with force=true, on " + m.str() + ": " + outcomeName(got) + ", expected " + outcomeName(THROW_INVALID_ARGUMENT));
                        else if (keyOf(o, true) != kb || !(o == before) || !(before == o))
                            sink.fail("unchanged.setEdgeLabel(absent)", "the rejected setEdgeLabel" + pr + " (after a forced one) changed the graph " + m.str());
                    }
                }
                if constexpr (T::fam == WEIGHTED)
                    reject("getEdgeWeight(absent)", "getEdgeWeight" + pr + " on an absent edge", THROW_INVALID_ARGUMENT, [&](G &g) { (void)g.getEdgeWeight(i, j); });
            }
        // finally the whole state oracle on the object that took all those rejected calls
        if (sink.failures.empty() && !huge) {
            ClauseSink all;
            checkState(c, m, all);
            for (auto &f : all.failures) sink.fail("unchanged.observers", "after the sequence of rejected calls: " + f.second);
        }
    }
};

template <class G> int runOne(Family fam, bool directed, bool labelled, const std::string &name, const Args &args) {
    std::string variant = args.get("variant", "n2");
    E1Config cfg;
    cfg.name = name + "/" + variant;
    if (variant == "huge") {
        // graphs with 10^5 .. 10^6 vertices: rejection must not depend on the magnitude of size or index
        Reporter rep;
        rep.property = "C07";
        rep.config = name + "/huge";
        rep.tier = args.get("tier", "quick");
        for (unsigned n : {100000u, 1234567u}) {
            G g(n);
            Model m;
            m.directed = Tr<G>::directed;
            m.n = n;
            Op o;
            o.k = ADD; o.i = 0; o.j = n - 1; o.v = fam == PLAIN ? (labelled ? 1 : 0) : (fam == MULTI ? 2 : 8);
            applyReal(g, o);
            applyModel(m, o, fam);
            ClauseSink sink;
            sink.property = "C07";
            Invalid<G> inv(g, m, sink, true);
            inv.run();
            for (auto &f : sink.failures) rep.violation("C07:" + rep.config + ":" + f.first, "graph with " + std::to_string(n) + " vertices: " + f.second, "--variant huge");
        }
        rep.count("rejected_calls", (long long)g_calls);
        rep.count("rejected_calls_on_nonempty_graphs", (long long)g_nontrivial);
        rep.count("entry_points", (long long)g_entryPoints.size());
        rep.count("states", 2);
        std::string out = args.get("out", "");
        if (!out.empty() && !rep.write(out)) return 2;
        printf("C07 %s: rejected_calls=%llu violations=%llu wall=%.1fs\n", rep.config.c_str(), g_calls, rep.violations(), clock_().elapsed());
        return 0;
    }
    if (variant == "n2") { cfg.startSizes = {0, 1, 2}; cfg.maxN = 2; cfg.maxDepth = -1; }
    else if (variant == "n3d2") { cfg.startSizes = {3}; cfg.maxN = 3; cfg.maxDepth = 2; }
    else if (variant == "n3d3") { cfg.startSizes = {3}; cfg.maxN = 3; cfg.maxDepth = 3; }
    else { fprintf(stderr, "unknown variant\n"); return 2; }
    cfg.completeKey = true;
    cfg.kinds = {ADD, REMOVE, REMOVE_VERTEX, CLEAR, RESIZE};
    if (fam == PLAIN) { cfg.addValues = labelled ? std::vector<long>{1, 2} : std::vector<long>{0}; }
    else if (fam == MULTI) { cfg.addValues = {1, 2}; cfg.maxValue = 3; }
    else cfg.addValues = {-6, 8};
    (void)directed;
    Reporter rep;
    rep.property = "C07";
    rep.config = cfg.name;
    rep.tier = args.get("tier", "quick");
    Explorer<G> ex(cfg, rep, "C07");
    ex.extraStateCheck = [](const G &g, const Model &m, ClauseSink &sink) {
        Invalid<G> inv(g, m, sink);
        inv.run();
    };
    if (args.has("ops")) return replayHistory<G>(cfg, "C07", args, ex.extraStateCheck);
    ex.run();
    rep.count("rejected_calls", (long long)g_calls);
    rep.count("rejected_calls_on_nonempty_graphs", (long long)g_nontrivial);
    rep.count("entry_points", (long long)g_entryPoints.size());
    std::vector<std::string> eps(g_entryPoints.begin(), g_entryPoints.end());
    rep.info["entry_points:" + cfg.name] = jstrarr(eps);
    std::string out = args.get("out", "");
    if (!out.empty() && !rep.write(out)) return 2;
    printf("C07 %s: states=%lld rejected_calls=%llu entry_points=%zu violations=%llu wall=%.1fs\n", cfg.name.c_str(), rep.counters["states"], g_calls, g_entryPoints.size(), rep.violations(), clock_().elapsed());
    return args.has("exitcode") && rep.violations() ? 1 : 0;
}

int main(int argc, char **argv) {
    Args args(argc, argv);
    (void)clock_();
    installWatchdog(60);
    if (args.has("deadline")) clock_().deadlineS = (double)args.getInt("deadline", 100000);
    std::string config = args.get("config", "");
#define CFG(NAME, TYPE, FAM, DIR, LAB)                                                                                                                                             \
    if (config == NAME) return runOne<TYPE>(FAM, DIR, LAB, NAME, args);
#define GCFG(N, NAME, TYPE, FAM, DIR, LAB) \
    if (GROUP == N || GROUP == -1) { CFG(NAME, TYPE, FAM, DIR, LAB) }
#if GROUP == 0 || GROUP == -1
    CFG("dir_NoLabel", LabeledDirectedGraph<NoLabel>, PLAIN, true, false)
#endif
#if GROUP == 1 || GROUP == -1
    CFG("und_NoLabel", LabeledUndirectedGraph<NoLabel>, PLAIN, false, false)
#endif
#if GROUP == 2 || GROUP == -1
    CFG("dir_int", LabeledDirectedGraph<int>, PLAIN, true, true)
#endif
#if GROUP == 3 || GROUP == -1
    CFG("und_int", LabeledUndirectedGraph<int>, PLAIN, false, true)
#endif
#if GROUP == 4 || GROUP == -1
    CFG("dir_string", LabeledDirectedGraph<std::string>, PLAIN, true, true)
#endif
#if GROUP == 5 || GROUP == -1
    CFG("und_string", LabeledUndirectedGraph<std::string>, PLAIN, false, true)
#endif
#if GROUP == 6 || GROUP == -1
    CFG("dmulti", DirectedMultigraph, MULTI, true, true)
#endif
#if GROUP == 7 || GROUP == -1
    CFG("umulti", UndirectedMultigraph, MULTI, false, true)
#endif
#if GROUP == 8 || GROUP == -1
    CFG("dweighted", DirectedWeightedGraph, WEIGHTED, true, true)
#endif
#if GROUP == 9 || GROUP == -1
    CFG("uweighted", UndirectedWeightedGraph, WEIGHTED, false, true)
#endif
    fprintf(stderr, "config %s is not in group %d\n", config.c_str(), GROUP);
    return 2;
}
