// C11 (BFS geodesics), C12 (Dijkstra), C19 (work bounds of the predecessor searches).
// Every graph of an exhaustively enumerated source x every source vertex (x every destination) is
// handed to the real algorithms; results are compared with an independent reference computed on the model.
//
//   paths --prop C11 --config dir --source e1n3 --out r.json
//   paths --prop C12 --config uw  --source perm4 --weights 1,3,8 --out r.json
//   paths --prop C19 --config dir --source layered --maxv 14 --out r.json
#include "../mc/e1.hpp"
#include "../mc/shapes.hpp"

#include "BaseGraph/algorithms/paths.hpp"

#include <numeric>

using namespace verif;
using namespace BaseGraph;

#ifndef GROUP
#define GROUP -1
#endif

static unsigned long long g_graphs = 0, g_cases = 0, g_nontrivial = 0, g_pathsSkipped = 0, g_maxWork = 0;
static double g_maxWorkRatio = 0;
static std::string g_worstWork;

// ------------------------------------------------------------------------ counting wrappers (C19)
static unsigned long long g_outNeighbourCalls = 0;
template <class L> struct CountingDirected : LabeledDirectedGraph<L> {
    using LabeledDirectedGraph<L>::LabeledDirectedGraph;
    CountingDirected(const LabeledDirectedGraph<L> &g) : LabeledDirectedGraph<L>(g) {}
    const Successors &getOutNeighbours(VertexIndex v) const {
        ++g_outNeighbourCalls;
        return LabeledDirectedGraph<L>::getOutNeighbours(v);
    }
};
template <class L> struct CountingUndirected : LabeledUndirectedGraph<L> {
    using LabeledUndirectedGraph<L>::LabeledUndirectedGraph;
    CountingUndirected(const LabeledUndirectedGraph<L> &g) : LabeledUndirectedGraph<L>(g) {}
    const Successors &getOutNeighbours(VertexIndex v) const {
        ++g_outNeighbourCalls;
        return LabeledUndirectedGraph<L>::getOutNeighbours(v);
    }
};
struct CountingDW : DirectedWeightedGraph {
    CountingDW(const DirectedWeightedGraph &g) : DirectedWeightedGraph(g) {}
    const Successors &getOutNeighbours(VertexIndex v) const {
        ++g_outNeighbourCalls;
        return DirectedWeightedGraph::getOutNeighbours(v);
    }
};
struct CountingUW : UndirectedWeightedGraph {
    CountingUW(const UndirectedWeightedGraph &g) : UndirectedWeightedGraph(g) {}
    const Successors &getOutNeighbours(VertexIndex v) const {
        ++g_outNeighbourCalls;
        return UndirectedWeightedGraph::getOutNeighbours(v);
    }
};
template <class G> struct CountingOf;
template <class L> struct CountingOf<LabeledDirectedGraph<L>> { using type = CountingDirected<L>; };
template <class L> struct CountingOf<LabeledUndirectedGraph<L>> { using type = CountingUndirected<L>; };
template <> struct CountingOf<DirectedWeightedGraph> { using type = CountingDW; };
template <> struct CountingOf<UndirectedWeightedGraph> { using type = CountingUW; };

// ------------------------------------------------------------------------------- reference model
struct Ref {
    unsigned n;
    std::vector<std::vector<unsigned>> out;  // successors (set semantics)
    std::vector<std::vector<long>> w;        // weight, -1 = no edge
    size_t listLength = 0;                   // E of the property: total length of all neighbour lists
    explicit Ref(const Model &m) : n(m.n), out(m.n), w(m.n, std::vector<long>(m.n, -1)) {
        for (auto &p : m.e) {
            unsigned a = p.first.first, b = p.first.second;
            out[a].push_back(b);
            w[a][b] = p.second.v;
            ++listLength;
            if (!m.directed && a != b) {
                out[b].push_back(a);
                w[b][a] = p.second.v;
                ++listLength;
            }
        }
    }
    bool edge(unsigned a, unsigned b) const { return w[a][b] >= 0; }
    static constexpr long INF = 1L << 50;
    std::vector<long> hopDistances(unsigned s) const { // plain BFS with a vector as queue
        std::vector<long> d(n, INF);
        std::vector<unsigned> q = {s};
        d[s] = 0;
        for (size_t h = 0; h < q.size(); ++h)
            for (unsigned v : out[q[h]])
                if (d[v] == INF) { d[v] = d[q[h]] + 1; q.push_back(v); }
        return d;
    }
    std::vector<long> weightedDistances(unsigned s) const { // Bellman-Ford in integers
        std::vector<long> d(n, INF);
        d[s] = 0;
        for (unsigned round = 0; round <= n; ++round) {
            bool ch = false;
            for (unsigned a = 0; a < n; ++a)
                if (d[a] < INF)
                    for (unsigned b : out[a])
                        if (d[a] + w[a][b] < d[b]) { d[b] = d[a] + w[a][b]; ch = true; }
            if (!ch) break;
        }
        return d;
    }
    // number of shortest s->t paths (capped) and their enumeration
    unsigned long countPaths(unsigned s, unsigned t, const std::vector<long> &d, unsigned long cap) const {
        std::vector<unsigned long> cnt(n, 0);
        std::vector<unsigned> order(n);
        std::iota(order.begin(), order.end(), 0u);
        std::sort(order.begin(), order.end(), [&](unsigned a, unsigned b) { return d[a] < d[b]; });
        cnt[s] = 1;
        for (unsigned a : order)
            if (d[a] < INF)
                for (unsigned b : out[a])
                    if (d[b] == d[a] + 1) cnt[b] = std::min(cap + 1, cnt[b] + cnt[a]);
        return cnt[t];
    }
    void enumeratePaths(unsigned s, unsigned t, const std::vector<long> &d, std::vector<std::vector<unsigned>> &res) const {
        std::vector<unsigned> cur = {t};
        std::function<void(unsigned)> rec = [&](unsigned v) {
            if (v == s) {
                std::vector<unsigned> p(cur.rbegin(), cur.rend());
                res.push_back(p);
                return;
            }
            for (unsigned a = 0; a < n; ++a)
                if (edge(a, v) && d[a] + 1 == d[v]) {
                    cur.push_back(a);
                    rec(a);
                    cur.pop_back();
                }
        };
        rec(t);
    }
};

template <class C> std::string seqStr(const C &c) {
    std::ostringstream o;
    o << "[";
    bool first = true;
    for (auto v : c) { o << (first ? "" : ",") << v; first = false; }
    o << "]";
    return o.str();
}

struct Fail {
    std::vector<std::pair<std::string, std::string>> items;
    void add(const std::string &clause, const std::string &d) { if (items.size() < 6) items.emplace_back(clause, d); }
};

// ------------------------------------------------------------------------------------------- C11
template <class G> void checkC11(const G &g, const Model &m, Fail &f) {
    Ref r(m);
    const unsigned n = m.n;
    const size_t SENT = (size_t)std::numeric_limits<VertexIndex>::max();
    for (unsigned s = 0; s < n; ++s) {
        auto d = r.hopDistances(s);
        progressTick();
        ++g_cases;
        if (r.listLength > 0) ++g_nontrivial;
        std::string where = "source " + std::to_string(s) + " on " + m.str();
        auto wantDist = [&](unsigned v) { return d[v] == Ref::INF ? SENT : (size_t)d[v]; };
        // single predecessors
        auto sp = algorithms::findVertexPredecessors(g, s);
        digest(seqStr(sp.first));
        if (sp.first.size() != n || sp.second.size() != n) f.add("c11.single", "findVertexPredecessors returned vectors of the wrong length, " + where);
        else
            for (unsigned v = 0; v < n; ++v) {
                if (sp.first[v] != wantDist(v)) f.add("c11.distance", "findVertexPredecessors: distance of " + std::to_string(v) + " is " + std::to_string(sp.first[v]) + ", expected " + std::to_string(wantDist(v)) + ", " + where);
                if (v != s && d[v] != Ref::INF) {
                    unsigned p = sp.second[v];
                    if (p >= n || !r.edge(p, v) || d[p] + 1 != d[v]) f.add("c11.single", "findVertexPredecessors: predecessor of " + std::to_string(v) + " is " + std::to_string(p) + ", not an in-neighbour one hop closer, " + where);
                }
            }
        // all predecessors
        auto ap = algorithms::findAllVertexPredecessors(g, s);
        for (auto &pl : ap.second) { std::vector<unsigned> srt(pl.begin(), pl.end()); std::sort(srt.begin(), srt.end()); digest(seqStr(srt)); }
        if (ap.first.size() != n || ap.second.size() != n) f.add("c11.all", "findAllVertexPredecessors returned vectors of the wrong length, " + where);
        else
            for (unsigned v = 0; v < n; ++v) {
                if (ap.first[v] != wantDist(v)) f.add("c11.distance", "findAllVertexPredecessors: distance of " + std::to_string(v) + " is " + std::to_string(ap.first[v]) + ", expected " + std::to_string(wantDist(v)) + ", " + where);
                std::vector<unsigned> got(ap.second[v].begin(), ap.second[v].end()), want;
                if (d[v] != Ref::INF)
                    for (unsigned p = 0; p < n; ++p)
                        if (r.edge(p, v) && d[p] != Ref::INF && d[p] + 1 == d[v]) want.push_back(p);
                std::sort(got.begin(), got.end());
                if (got != want) f.add("c11.all", "findAllVertexPredecessors: predecessors of " + std::to_string(v) + " are " + seqStr(got) + ", expected exactly " + seqStr(want) + ", " + where);
            }
        // single geodesics
        auto validPath = [&](const auto &p, unsigned t) -> std::string {
            if (d[t] == Ref::INF) return p.empty() ? "" : "non-empty path " + seqStr(p) + " to an unreachable vertex";
            std::vector<unsigned> v(p.begin(), p.end());
            if (t == s) return (v.size() == 1 && v[0] == s) ? "" : "path to the source itself is " + seqStr(v) + ", expected [" + std::to_string(s) + "]";
            if (v.size() != (size_t)d[t] + 1) return "path " + seqStr(v) + " has " + std::to_string(v.empty() ? 0 : v.size() - 1) + " hops, expected " + std::to_string(d[t]);
            if (v.front() != s || v.back() != t) return "path " + seqStr(v) + " does not go from the source to the destination";
            for (size_t k = 0; k + 1 < v.size(); ++k)
                if (v[k] >= n || v[k + 1] >= n || !r.edge(v[k], v[k + 1])) return "path " + seqStr(v) + " uses a pair that is not an edge";
            return "";
        };
        auto fromV = algorithms::findGeodesicsFromVertex(g, s);
        if (fromV.size() != n) f.add("c11.path", "findGeodesicsFromVertex returned " + std::to_string(fromV.size()) + " paths, " + where);
        // all geodesics
        auto allFrom = algorithms::findAllGeodesicsFromVertex(g, s);
        if (allFrom.size() != n) f.add("c11.allpaths", "findAllGeodesicsFromVertex returned " + std::to_string(allFrom.size()) + " entries, " + where);
        std::vector<std::vector<unsigned>> firstSingle(n);
        for (unsigned t = 0; t < n; ++t) {
            auto p = algorithms::findGeodesics(g, s, t);
            firstSingle[t].assign(p.begin(), p.end());
            std::string e = validPath(p, t);
            if (!e.empty()) f.add("c11.path", "findGeodesics(" + std::to_string(s) + "," + std::to_string(t) + "): " + e + ", on " + m.str());
            if (fromV.size() == n) {
                e = validPath(fromV[t], t);
                if (!e.empty()) f.add("c11.path", "findGeodesicsFromVertex(" + std::to_string(s) + ")[" + std::to_string(t) + "]: " + e + ", on " + m.str());
            }
            std::vector<std::vector<unsigned>> want;
            if (d[t] != Ref::INF) {
                if (r.countPaths(s, t, d, 2000) > 2000) { ++g_pathsSkipped; continue; }
                r.enumeratePaths(s, t, d, want);
            }
            std::sort(want.begin(), want.end());
            auto canonAll = [&](const auto &mp) {
                std::vector<std::vector<unsigned>> got;
                for (auto &q : mp) got.emplace_back(q.begin(), q.end());
                std::sort(got.begin(), got.end());
                return got;
            };
            auto show = [&](const std::vector<std::vector<unsigned>> &ps) {
                std::string o;
                for (auto &q : ps) o += seqStr(q);
                return o.empty() ? std::string("(none)") : o;
            };
            auto got = canonAll(algorithms::findAllGeodesics(g, s, t));
            digestNum(got.size());
            if (got != want) f.add("c11.allpaths", "findAllGeodesics(" + std::to_string(s) + "," + std::to_string(t) + ") returned " + show(got) + ", expected exactly " + show(want) + ", on " + m.str());
            if (allFrom.size() == n) {
                auto got2 = canonAll(allFrom[t]);
                if (got2 != want) f.add("c11.allpaths", "findAllGeodesicsFromVertex(" + std::to_string(s) + ")[" + std::to_string(t) + "] returned " + show(got2) + ", expected exactly " + show(want) + ", on " + m.str());
            }
        }
        // The answers are a function of (graph, source, destination): calls that are REJECTED in between - a path
        // asked from a predecessor table to a vertex the source does not reach, a vertex index outside the graph -
        // must not change what the next search returns.
        std::string rejected;
        for (unsigned t = 0; t < n; ++t)
            if (d[t] == Ref::INF) {
                try { (void)algorithms::findPathToVertexFromPredecessors(g, s, t, sp); } catch (...) { rejected += " findPathToVertexFromPredecessors(" + std::to_string(s) + "," + std::to_string(t) + ")"; }
                try { (void)algorithms::findMultiplePathsToVertexFromPredecessors(g, s, t, ap); } catch (...) { rejected += " findMultiplePathsToVertexFromPredecessors(" + std::to_string(s) + "," + std::to_string(t) + ")"; }
            }
        try { (void)algorithms::findGeodesics(g, s, n); } catch (...) { rejected += " findGeodesics(" + std::to_string(s) + "," + std::to_string(n) + ")"; }
        try { (void)algorithms::findAllGeodesics(g, n, s); } catch (...) { rejected += " findAllGeodesics(" + std::to_string(n) + "," + std::to_string(s) + ")"; }
        for (unsigned t = 0; t < n; ++t) {
            auto p = algorithms::findGeodesics(g, s, t);
            std::vector<unsigned> again(p.begin(), p.end());
            std::string e = validPath(p, t);
            if (!e.empty() || again != firstSingle[t])
                f.add("c11.path", "findGeodesics(" + std::to_string(s) + "," + std::to_string(t) + ") called again after the rejected calls [" + rejected + " ] returned " + seqStr(again) + (e.empty() ? "" : " (" + e + ")") + "; the first call returned " + seqStr(firstSingle[t]) + ", on " + m.str());
            if (d[t] != Ref::INF) {
                try {
                    auto q = algorithms::findPathToVertexFromPredecessors(g, s, t, sp);
                    e = validPath(q, t);
                    if (!e.empty()) f.add("c11.path", "findPathToVertexFromPredecessors(" + std::to_string(s) + "," + std::to_string(t) + ") after the rejected calls [" + rejected + " ]: " + e + ", on " + m.str());
                } catch (...) { f.add("c11.path", "findPathToVertexFromPredecessors(" + std::to_string(s) + "," + std::to_string(t) + ") threw for a reachable destination, on " + m.str()); }
            }
        }
    }
}

// ------------------------------------------------------------------------------------------- C12
template <class G> void checkC12(const G &g, const Model &m, Fail &f) {
    Ref r(m);
    const unsigned n = m.n;
    for (unsigned s = 0; s < n; ++s) {
        ++g_cases;
        auto d = r.weightedDistances(s);
        bool tie = false;
        breadcrumb("C12 Dijkstra source " + std::to_string(s) + " on " + m.str());
        auto res = algorithms::findGeodesicsDijkstra(g, s);
        for (double dv : res.first) digest(hexd(dv));
        std::string where = "source " + std::to_string(s) + " on " + m.str();
        if (res.first.size() != n || res.second.size() != n) { f.add("c12.shape", "result vectors have the wrong length, " + where); continue; }
        for (unsigned v = 0; v < n; ++v) {
            double want = d[v] == Ref::INF ? std::numeric_limits<double>::infinity() : weightOf(d[v]);
            if (res.first[v] != want) f.add("c12.distance", "distance of " + std::to_string(v) + " is " + hexd(res.first[v]) + ", expected " + hexd(want) + ", " + where);
            unsigned p = res.second[v];
            if (v == s) {
                if (p != s) f.add("c12.pred", "the source's predecessor is " + std::to_string(p) + ", expected the source itself, " + where);
            } else if (d[v] == Ref::INF) {
                if ((size_t)p != (size_t)std::numeric_limits<VertexIndex>::max()) f.add("c12.pred", "unreachable vertex " + std::to_string(v) + " has predecessor " + std::to_string(p) + " instead of the sentinel, " + where);
            } else {
                if (p >= n || !r.edge(p, v)) f.add("c12.pred", "predecessor " + std::to_string(p) + " of " + std::to_string(v) + " is not joined to it by an edge, " + where);
                else if (res.first[v] != res.first[p] + weightOf(r.w[p][v])) f.add("c12.pred", "dist[" + std::to_string(v) + "] != dist[" + std::to_string(p) + "] + weight(" + std::to_string(p) + "," + std::to_string(v) + "), " + where);
                // how many in-neighbours achieve the minimum (ties make the case non-trivial)
                unsigned ach = 0;
                for (unsigned a = 0; a < n; ++a)
                    if (r.edge(a, v) && d[a] != Ref::INF && d[a] + r.w[a][v] == d[v]) ++ach;
                if (ach > 1) tie = true;
            }
        }
        // consistent tree: following predecessors from any reached vertex arrives at the source
        for (unsigned v = 0; v < n; ++v) {
            if (d[v] == Ref::INF) continue;
            unsigned cur = v, steps = 0;
            while (cur != s && steps <= n) {
                unsigned p = res.second[cur];
                if (p >= n) break;
                cur = p;
                ++steps;
            }
            if (cur != s) f.add("c12.tree", "following predecessors from " + std::to_string(v) + " does not arrive at the source (predecessors " + seqStr(res.second) + "), " + where);
        }
        if (tie) ++g_nontrivial;
        // same call again, after a rejected one (source outside the graph): same answer
        if (s + 1 == n) {
            try { (void)algorithms::findGeodesicsDijkstra(g, n); } catch (...) {}
            auto again = algorithms::findGeodesicsDijkstra(g, s);
            if (again.first != res.first || again.second != res.second)
                f.add("c12.repeat", "findGeodesicsDijkstra called twice with the same arguments (a rejected call with source " + std::to_string(n) + " in between) returned different results, " + where);
        }
    }
}

// ------------------------------------------------------------------------------------------- C19
template <class G> void checkC19(const G &g, const Model &m, Fail &f, bool weighted) {
    using CG = typename CountingOf<G>::type;
    Ref r(m);
    const unsigned n = m.n;
    CG cg(g);
    const size_t V = n, E = r.listLength;
    auto note = [&](const std::string &what, unsigned s, unsigned long long calls, size_t bound) {
        double ratio = bound ? (double)calls / (double)bound : 0;
        if (ratio > g_maxWorkRatio) { g_maxWorkRatio = ratio; g_worstWork = what + " from " + std::to_string(s) + ": " + std::to_string(calls) + " getOutNeighbours calls, bound " + std::to_string(bound) + ", V=" + std::to_string(V) + " E=" + std::to_string(E); }
        g_maxWork = std::max<unsigned long long>(g_maxWork, calls);
        if (calls > bound)
            f.add("c19." + what, what + " from source " + std::to_string(s) + " made " + std::to_string(calls) + " getOutNeighbours calls; the bound is " + std::to_string(bound) + " (V=" + std::to_string(V) + ", E=" + std::to_string(E) + ") on " + (n <= 8 ? m.str() : "a graph with " + std::to_string(n) + " vertices"));
    };
    for (unsigned s = 0; s < n; ++s) {
        ++g_cases;
        if (E > V) ++g_nontrivial;
        if constexpr (Tr<G>::fam == PLAIN) {
            if (!weighted) {
                breadcrumb("C19 findVertexPredecessors source " + std::to_string(s) + " n=" + std::to_string(n));
                g_outNeighbourCalls = 0;
                auto a = algorithms::findVertexPredecessors(cg, s);
                note("findVertexPredecessors", s, g_outNeighbourCalls, V);
                breadcrumb("C19 findAllVertexPredecessors source " + std::to_string(s) + " n=" + std::to_string(n));
                g_outNeighbourCalls = 0;
                auto b = algorithms::findAllVertexPredecessors(cg, s);
                note("findAllVertexPredecessors", s, g_outNeighbourCalls, V + E);
                // the counted runs must still be right (cheap part of the C11 oracle)
                auto d = r.hopDistances(s);
                for (unsigned v = 0; v < n; ++v) {
                    size_t want = d[v] == Ref::INF ? (size_t)std::numeric_limits<VertexIndex>::max() : (size_t)d[v];
                    if (a.first[v] != want || b.first[v] != want) f.add("c19.result", "a counted search returned a wrong distance for vertex " + std::to_string(v) + " from " + std::to_string(s));
                }
            }
        } else {
            breadcrumb("C19 findGeodesicsDijkstra source " + std::to_string(s) + " n=" + std::to_string(n));
            g_outNeighbourCalls = 0;
            auto c = algorithms::findGeodesicsDijkstra(cg, s);
            note("findGeodesicsDijkstra", s, g_outNeighbourCalls, V + E + 1);
            auto d = r.weightedDistances(s);
            for (unsigned v = 0; v < n; ++v) {
                double want = d[v] == Ref::INF ? std::numeric_limits<double>::infinity() : weightOf(d[v]);
                if (c.first[v] != want) f.add("c19.result", "counted Dijkstra returned a wrong distance for vertex " + std::to_string(v) + " from " + std::to_string(s));
            }
        }
    }
}

// -------------------------------------------------------------------------------- graph sources
template <class G> struct Runner {
    using T = Tr<G>;
    std::string prop, cfgName;
    Reporter &rep;
    std::vector<long> weights;
    unsigned shard = 0, shards = 1, minEdges = 0, stride = 1, tailLen = 0;
    int tailAt = -1;
    Runner(const std::string &p, const std::string &c, Reporter &r) : prop(p), cfgName(c), rep(r) {}

    void visit(const G &g, const Model &m, const std::string &howBuilt, const std::string &replay) {
        ++g_graphs;
        Fail f;
        if (prop == "C11") { if constexpr (T::fam == PLAIN) checkC11(g, m, f); }
        else if (prop == "C12") { if constexpr (T::fam == WEIGHTED) checkC12(g, m, f); }
        else checkC19(g, m, f, T::fam == WEIGHTED);
        for (auto &it : f.items) rep.violation(prop + ":" + cfgName + ":" + it.first, it.second + "  [graph built by: " + howBuilt + "]", replay);
    }

    // direct construction from an explicit list of (i, j, value) insertions
    void visitInsertions(unsigned n0, const std::vector<std::tuple<unsigned, unsigned, long>> &ins0, const std::string &family) {
        // optional amplification gadget: a zero-weight tail path hanging off every core vertex, so that any
        // re-expansion of a core vertex costs a whole tail of neighbourhood scans
        unsigned n = n0;
        std::vector<std::tuple<unsigned, unsigned, long>> ins = ins0;
        if (tailLen > 0) {
            for (unsigned c = 0; c < n0; ++c) {
                if (tailAt >= 0 && (unsigned)tailAt != c) continue; // a single tail: the bound grows by one tail only
                unsigned prev = c;
                for (unsigned t = 0; t < tailLen; ++t) { ins.emplace_back(prev, n, 0L); prev = n++; }
            }
        }
        G g(n);
        Model m;
        m.directed = T::directed;
        m.n = n;
        std::string enc;
        for (auto &t : ins) {
            unsigned i = std::get<0>(t), j = std::get<1>(t);
            long v = std::get<2>(t);
            if (m.find(i, j)) continue;
            if constexpr (T::fam == WEIGHTED) g.addEdge(i, j, weightOf(v));
            else if constexpr (T::fam == PLAIN) g.addEdge(i, j);
            Ent en;
            en.v = v;
            m.e[m.canon(i, j)] = en;
            if (enc.size() < 3000) enc += std::to_string(i) + ":" + std::to_string(j) + ":" + std::to_string(v) + ",";
        }
        visit(g, m, family + " insertions " + (enc.size() < 400 ? enc : enc.substr(0, 400) + "..."), "--source insertions --n " + std::to_string(n) + " --ins " + enc);
    }

    bool stop() {
        if (clock_().expired()) { rep.cap(cfgName + ": deadline reached"); return true; }
        if (rep.violations() > 500) { rep.cap(cfgName + ": stopped after 500 clause failures"); return true; }
        return false;
    }

    // all edge sets on n vertices x value assignments x insertion orders (asc / desc / swapped)
    void sourceE2(unsigned n, bool loops, unsigned maxEdges) {
        auto pairs = allPairs(n, T::directed, loops);
        size_t P = pairs.size();
        size_t W = T::fam == WEIGHTED ? weights.size() : 1;
        // odometer over per-pair choice 0 (absent) .. W
        std::vector<unsigned> ch(P, 0);
        unsigned long long counter = 0;
        while (true) {
            ++counter;
            if (shards > 1 && (counter % shards) != shard) goto next;
            {
            unsigned long mask = 0;
            unsigned edges = 0;
            for (size_t k = 0; k < P; ++k)
                if (ch[k]) { mask |= 1ul << k; ++edges; }
            if (edges <= maxEdges && edges >= minEdges && (stride <= 1 || (counter % stride) == 0)) {
                for (int order = 0; order < (T::directed ? 2 : 3); ++order) {
                    G g(0);
                    Model m;
                    buildFromMask(n, pairs, mask, order, [&](size_t k) { return T::fam == WEIGHTED ? weights[ch[k] - 1] : 0L; }, g, m);
                    std::string enc;
                    for (size_t k = 0; k < P; ++k) enc += std::to_string(ch[k]);
                    visit(g, m, "edge set " + maskText(pairs, mask) + " order " + std::to_string(order), "--source e2one --n " + std::to_string(n) + " --choice " + enc + " --order " + std::to_string(order) + (loops ? "" : " --noloops"));
                }
            }
            if ((counter & 0xfff) == 0 && stop()) return;
            }
        next:
            size_t k = 0;
            while (k < P && ch[k] == W) ch[k++] = 0;
            if (k == P) break;
            ++ch[k];
        }
    }

    // directed only: every choice of an ORDERED neighbour list per vertex (all list orders), values from the alphabet
    void sourceLists(unsigned n) {
        if constexpr (T::directed) {
            // enumerate per-vertex lists as sequences of distinct targets with values
            struct Item { unsigned j; long v; };
            std::vector<std::vector<std::vector<Item>>> perVertex(n);
            size_t W = T::fam == WEIGHTED ? weights.size() : 1;
            for (unsigned v = 0; v < n; ++v) {
                std::vector<Item> cur;
                std::vector<bool> used(n, false);
                std::function<void()> rec = [&]() {
                    perVertex[v].push_back(cur);
                    for (unsigned j = 0; j < n; ++j)
                        if (!used[j])
                            for (size_t w = 0; w < W; ++w) {
                                used[j] = true;
                                cur.push_back({j, T::fam == WEIGHTED ? weights[w] : 0L});
                                rec();
                                cur.pop_back();
                                used[j] = false;
                            }
                };
                rec();
            }
            std::vector<size_t> idx(n, 0);
            while (true) {
                std::vector<std::tuple<unsigned, unsigned, long>> ins;
                for (unsigned v = 0; v < n; ++v)
                    for (auto &it : perVertex[v][idx[v]]) ins.emplace_back(v, it.j, it.v);
                visitInsertions(n, ins, "ordered-lists");
                if (stop()) return;
                size_t k = 0;
                while (k < n && idx[k] + 1 == perVertex[k].size()) idx[k++] = 0;
                if (k == n) break;
                ++idx[k];
            }
        }
    }

    // every subset of the pairs of K_n (loop-free) with exactly `edges` edges x every insertion order x every value assignment
    void sourcePerm(unsigned n, unsigned edgesWanted) {
        auto pairs = allPairs(n, T::directed, false);
        size_t P = pairs.size();
        size_t W = T::fam == WEIGHTED ? weights.size() : 1;
        for (unsigned long mask = 0; mask < (1ul << P); ++mask) {
            if ((unsigned)__builtin_popcountl(mask) != edgesWanted) continue;
            std::vector<size_t> chosen;
            for (size_t k = 0; k < P; ++k)
                if (mask & (1ul << k)) chosen.push_back(k);
            std::vector<size_t> perm(chosen.size());
            std::iota(perm.begin(), perm.end(), 0);
            do {
                std::vector<size_t> wv(chosen.size(), 0);
                while (true) {
                    std::vector<std::tuple<unsigned, unsigned, long>> ins;
                    for (size_t t = 0; t < perm.size(); ++t) {
                        size_t k = chosen[perm[t]];
                        ins.emplace_back(pairs[k].first, pairs[k].second, T::fam == WEIGHTED ? weights[wv[perm[t]]] : 0L);
                    }
                    visitInsertions(n, ins, "all-orders");
                    size_t q = 0;
                    while (q < wv.size() && wv[q] + 1 == W) wv[q++] = 0;
                    if (q == wv.size()) break;
                    ++wv[q];
                }
                if (stop()) return;
            } while (std::next_permutation(perm.begin(), perm.end()));
        }
    }

    // every subset of exactly `k` loop-free pairs x every value assignment x ascending/descending insertion
    void sourceSubsets(unsigned n, unsigned k) {
        auto pairs = allPairs(n, T::directed, false);
        size_t P = pairs.size();
        size_t W = T::fam == WEIGHTED ? weights.size() : 1;
        std::vector<size_t> comb(k);
        for (size_t i = 0; i < k; ++i) comb[i] = i;
        unsigned long long counter = 0;
        if (k > P) return;
        while (true) {
            std::vector<size_t> wv(k, 0);
            while (true) {
                ++counter;
                if ((shards <= 1 || (counter % shards) == shard) && (stride <= 1 || (counter % stride) == 0)) {
                    for (int order = 0; order < 2; ++order) {
                        std::vector<std::tuple<unsigned, unsigned, long>> ins;
                        for (size_t t = 0; t < k; ++t) {
                            size_t q = order ? k - 1 - t : t;
                            ins.emplace_back(pairs[comb[q]].first, pairs[comb[q]].second, T::fam == WEIGHTED ? weights[wv[q]] : 0L);
                        }
                        visitInsertions(n, ins, "k-subsets");
                    }
                }
                size_t q = 0;
                while (q < k && wv[q] + 1 == W) wv[q++] = 0;
                if (q == k) break;
                ++wv[q];
            }
            if (stop()) return;
            // next combination
            int i = (int)k - 1;
            while (i >= 0 && comb[i] == P - k + i) --i;
            if (i < 0) break;
            ++comb[i];
            for (size_t j = i + 1; j < k; ++j) comb[j] = comb[j - 1] + 1;
        }
    }

    // layered graphs: every sequence of layer widths in {1,2,3} with at most maxV vertices; consecutive layers completely joined
    void sourceLayered(unsigned maxV, long weight) {
        std::vector<unsigned> widths;
        std::function<void(unsigned)> rec = [&](unsigned used) {
            if (widths.size() >= 2) {
                std::vector<std::tuple<unsigned, unsigned, long>> ins;
                unsigned base = 0;
                for (size_t l = 0; l + 1 < widths.size(); ++l) {
                    for (unsigned a = 0; a < widths[l]; ++a)
                        for (unsigned b = 0; b < widths[l + 1]; ++b) ins.emplace_back(base + a, base + widths[l] + b, weight);
                    base += widths[l];
                }
                visitInsertions(used, ins, "layered widths " + seqStr(widths));
            }
            if (stop()) return;
            for (unsigned wd = 1; wd <= 3; ++wd)
                if (used + wd <= maxV) {
                    widths.push_back(wd);
                    rec(used + wd);
                    widths.pop_back();
                }
        };
        rec(0);
    }
    void sourceGrid(unsigned maxSide, long weight) {
        for (unsigned p = 1; p <= maxSide; ++p)
            for (unsigned q = 1; q <= maxSide; ++q) {
                std::vector<std::tuple<unsigned, unsigned, long>> ins;
                for (unsigned a = 0; a < p; ++a)
                    for (unsigned b = 0; b < q; ++b) {
                        if (a + 1 < p) ins.emplace_back(a * q + b, (a + 1) * q + b, weight);
                        if (b + 1 < q) ins.emplace_back(a * q + b, a * q + b + 1, weight);
                    }
                visitInsertions(p * q, ins, "grid " + std::to_string(p) + "x" + std::to_string(q));
            }
    }
    void sourceDense(unsigned maxN, long weight) { // complete (di)graphs with loops and cycles, all the same weight
        for (unsigned n = 1; n <= maxN; ++n) {
            std::vector<std::tuple<unsigned, unsigned, long>> all, cyc;
            for (unsigned a = 0; a < n; ++a) {
                for (unsigned b = 0; b < n; ++b) all.emplace_back(a, b, weight);
                cyc.emplace_back(a, (a + 1) % n, weight);
            }
            visitInsertions(n, all, "complete graph with loops, n=" + std::to_string(n));
            visitInsertions(n, cyc, "cycle, n=" + std::to_string(n));
        }
    }
    // long chains, cycles with chords, triangle snakes: sizes beyond 32 / 64 / 128 / 256 vertices
    void sourceChains(unsigned maxN) {
        for (unsigned n : {33u, 40u, 64u, 65u, 70u, 129u, 200u, 300u}) {
            if (n > maxN) continue;
            std::vector<std::tuple<unsigned, unsigned, long>> path, ring, rev;
            for (unsigned i = 0; i + 1 < n; ++i) { path.emplace_back(i, i + 1, 1L); rev.emplace_back(n - 1 - i, n - 2 - i, 1L); }
            for (unsigned i = 0; i < n; ++i) { ring.emplace_back(i, (i + 1) % n, 1L); if (i % 9 == 0) ring.emplace_back(i, (i + n / 3) % n, 1L); if (i % 13 == 0) ring.emplace_back(i, i, 1L); }
            visitInsertions(n, path, "path on " + std::to_string(n) + " vertices");
            visitInsertions(n, rev, "descending path on " + std::to_string(n) + " vertices");
            visitInsertions(n, ring, "ring with chords on " + std::to_string(n) + " vertices");
            if (stop()) return;
        }
    }
    void sourceSnake(unsigned maxT) { // chain of triangles: spine 0..t, one apex per triangle; two insertion orders
        for (unsigned t = 1; t <= maxT; ++t)
            for (int apexFirst = 0; apexFirst < 2; ++apexFirst) {
                std::vector<std::tuple<unsigned, unsigned, long>> ins;
                for (unsigned i = 0; i < t; ++i) {
                    auto sp = std::make_tuple(i, i + 1, 1L), up = std::make_tuple(i, t + 1 + i, 1L), dn = std::make_tuple(t + 1 + i, i + 1, 1L);
                    if (apexFirst) { ins.push_back(up); ins.push_back(dn); ins.push_back(sp); }
                    else { ins.push_back(sp); ins.push_back(up); ins.push_back(dn); }
                }
                visitInsertions(2 * t + 1, ins, "triangle snake t=" + std::to_string(t));
            }
    }
    // every edge set on n vertices (ascending insertion) followed by ONE forced duplicate of one of its edges
    void sourceDups(unsigned n) {
        if constexpr (T::fam == PLAIN) {
            auto pairs = allPairs(n, T::directed, true);
            for (unsigned long mask = 1; mask < (1ul << pairs.size()); ++mask)
                for (size_t d = 0; d < pairs.size(); ++d) {
                    if (!(mask & (1ul << d))) continue;
                    G g(n);
                    Model m;
                    m.directed = T::directed;
                    m.n = n;
                    for (size_t k = 0; k < pairs.size(); ++k)
                        if (mask & (1ul << k)) { g.addEdge(pairs[k].first, pairs[k].second); Ent en; m.e[m.canon(pairs[k].first, pairs[k].second)] = en; }
                    g.addEdge(pairs[d].first, pairs[d].second, true);
                    visit(g, m, "edge set " + maskText(pairs, mask) + " then a forced duplicate of (" + std::to_string(pairs[d].first) + "," + std::to_string(pairs[d].second) + ")", "--source dups --n " + std::to_string(n));
                    if ((mask & 0xff) == 0 && stop()) return;
                }
        }
    }

    // "shortcut ladder": chain 0..L; step i has an expensive direct edge and a cheap two-edge detour.
    void sourceLadder(unsigned maxL) {
        for (unsigned L = 1; L <= maxL; ++L)
            for (int detourFirst = 0; detourFirst < 2; ++detourFirst) {
                std::vector<std::tuple<unsigned, unsigned, long>> ins;
                unsigned n = 2 * L + 1; // chain vertices 0..L, detour vertices L+1..2L
                for (unsigned i = 0; i < L; ++i) {
                    long direct = 2 + (1L << (L - i));
                    auto d1 = std::make_tuple(i, L + 1 + i, 1L), d2 = std::make_tuple(L + 1 + i, i + 1, 1L), dd = std::make_tuple(i, i + 1, direct);
                    if (detourFirst) { ins.push_back(d1); ins.push_back(d2); ins.push_back(dd); }
                    else { ins.push_back(dd); ins.push_back(d1); ins.push_back(d2); }
                }
                visitInsertions(n, ins, "shortcut ladder L=" + std::to_string(L));
            }
    }
};

template <class G> int runOne(const std::string &prop, const std::string &name, const Args &args) {
    using T = Tr<G>;
    std::string source = args.get("source", "e2");
    Reporter rep;
    rep.property = prop;
    rep.config = name + "/" + source + (args.has("n") ? args.get("n") : "") + (args.has("weights") ? "/w" + args.get("weights") : "") + (args.has("edges") ? "/e" + args.get("edges") : "");
    rep.tier = args.get("tier", "quick");
    weightScale() = 1.0; // model value = weight
    if (args.has("halves")) weightScale() = 0.5; // model value = weight x 2 (weights are multiples of 1/2: sums stay exact)
    Runner<G> run(prop, rep.config, rep);
    for (auto &t : split(args.get("weights", "0,1,3"), ',')) run.weights.push_back(atol(t.c_str()));
    unsigned n = (unsigned)args.getInt("n", 3);
    run.shard = (unsigned)args.getInt("shard", 0);
    run.shards = (unsigned)args.getInt("shards", 1);
    run.minEdges = (unsigned)args.getInt("minedges", 0);
    run.tailLen = (unsigned)args.getInt("tail", 0);
    run.tailAt = (int)args.getInt("tailat", -1);
    if (run.tailLen) { rep.config += "/tail" + std::to_string(run.tailLen); run.cfgName = rep.config; }
    run.stride = (unsigned)args.getInt("stride", 1); // >1: every stride-th member of the enumeration (a fixed, seed-free subset; reported as a cap)
    if (run.stride > 1) rep.cap(rep.config + ": only every " + std::to_string(run.stride) + "-th element of the enumeration is visited");
    if (run.shards > 1) rep.config += "/shard" + std::to_string(run.shard) + "of" + std::to_string(run.shards);
    run.cfgName = rep.config;
    if (source == "e1") {
        E1Config cfg;
        cfg.name = rep.config;
        cfg.startSizes = {0, 1, 2, 3};
        cfg.maxN = n;
        if (n < 3) cfg.startSizes = {0, 1, 2};
        cfg.maxDepth = -1;
        cfg.completeKey = false;
        cfg.kinds = {ADD, REMOVE, RESIZE};
        cfg.addValues = T::fam == WEIGHTED ? run.weights : std::vector<long>{0};
        Explorer<G> ex(cfg, rep, prop);
        ex.extraStateCheck = [&](const G &g, const Model &m, ClauseSink &sink) {
            Fail f;
            ++g_graphs;
            if (prop == "C11") { if constexpr (T::fam == PLAIN) checkC11(g, m, f); }
            else if (prop == "C12") { if constexpr (T::fam == WEIGHTED) checkC12(g, m, f); }
            else checkC19(g, m, f, T::fam == WEIGHTED);
            for (auto &it : f.items) sink.fail(it.first, it.second);
        };
        if (args.has("ops")) return replayHistory<G>(cfg, prop, args, ex.extraStateCheck);
        ex.run();
    } else if (source == "e2") run.sourceE2(n, !args.has("noloops"), (unsigned)args.getInt("maxedges", 1000));
    else if (source == "lists") run.sourceLists(n);
    else if (source == "subsets") run.sourceSubsets(n, (unsigned)args.getInt("edges", 5));
    else if (source == "perm") run.sourcePerm(n, (unsigned)args.getInt("edges", 6));
    else if (source == "layered") run.sourceLayered((unsigned)args.getInt("maxv", 12), args.getInt("weight", 1));
    else if (source == "grid") run.sourceGrid((unsigned)args.getInt("side", 5), args.getInt("weight", 1));
    else if (source == "dense") run.sourceDense((unsigned)args.getInt("maxn", 8), args.getInt("weight", 0));
    else if (source == "chains") run.sourceChains((unsigned)args.getInt("maxn", 300));
    else if (source == "snake") run.sourceSnake((unsigned)args.getInt("maxt", 40));
    else if (source == "dups") run.sourceDups(n);
    else if (source == "ladder") run.sourceLadder((unsigned)args.getInt("maxl", 26));
    else if (source == "insertions") { // replay of one explicit graph
        std::vector<std::tuple<unsigned, unsigned, long>> ins;
        for (auto &t : split(args.get("ins", ""), ',')) {
            auto p = split(t, ':');
            if (p.size() == 3) ins.emplace_back((unsigned)atol(p[0].c_str()), (unsigned)atol(p[1].c_str()), atol(p[2].c_str()));
        }
        run.visitInsertions(n, ins, "replay");
        for (auto &v : rep.bySig)
            for (auto &x : v.second) printf("REPRODUCED %s: %s\n", x.signature.c_str(), x.detail.c_str());
        return rep.violations() ? 1 : 0;
    } else if (source == "e2one") {
        std::string choice = args.get("choice", "");
        auto pairs = allPairs(n, T::directed, !args.has("noloops"));
        unsigned long mask = 0;
        for (size_t k = 0; k < pairs.size() && k < choice.size(); ++k)
            if (choice[k] != '0') mask |= 1ul << k;
        G g(0);
        Model m;
        buildFromMask(n, pairs, mask, (int)args.getInt("order", 0), [&](size_t k) { return T::fam == WEIGHTED ? run.weights[choice[k] - '1'] : 0L; }, g, m);
        run.visit(g, m, "replay", "");
        for (auto &v : rep.bySig)
            for (auto &x : v.second) printf("REPRODUCED %s: %s\n", x.signature.c_str(), x.detail.c_str());
        return rep.violations() ? 1 : 0;
    } else { fprintf(stderr, "unknown source %s\n", source.c_str()); return 2; }
    rep.count("graphs", (long long)g_graphs);
    rep.count("cases", (long long)g_cases);
    rep.count("nontrivial_cases", (long long)g_nontrivial);
    rep.count("allpaths_skipped", (long long)g_pathsSkipped);
    rep.count("max_getOutNeighbours_calls", (long long)g_maxWork);
    rep.info["worst_work:" + rep.config] = jstr(g_worstWork);
    JObj s;
    s.str("config", rep.config).num("graphs", (long long)g_graphs).str("worst_work_ratio_case", g_worstWork);
    rep.sample(s.render());
    std::string out = args.get("out", "");
    if (!out.empty() && !rep.write(out)) return 2;
    printf("%s %s: graphs=%llu cases=%llu violations=%llu worst-work-ratio=%.3f exhaustive=%d wall=%.1fs\n", prop.c_str(), rep.config.c_str(), g_graphs, g_cases, rep.violations(), g_maxWorkRatio, (int)rep.exhaustive, clock_().elapsed());
    return args.has("exitcode") && rep.violations() ? 1 : 0;
}

int main(int argc, char **argv) {
    Args args(argc, argv);
    (void)clock_();
    installWatchdog(60);
    if (args.has("deadline")) clock_().deadlineS = (double)args.getInt("deadline", 100000);
    std::string prop = args.get("prop", "C11"), config = args.get("config", "");
#if GROUP == 0 || GROUP == -1
    if (config == "dir") return runOne<LabeledDirectedGraph<NoLabel>>(prop, "dir", args);
#endif
#if GROUP == 1 || GROUP == -1
    if (config == "und") return runOne<LabeledUndirectedGraph<NoLabel>>(prop, "und", args);
#endif
#if GROUP == 2 || GROUP == -1
    if (config == "dw") return runOne<DirectedWeightedGraph>(prop, "dw", args);
#endif
#if GROUP == 3 || GROUP == -1
    if (config == "uw") return runOne<UndirectedWeightedGraph>(prop, "uw", args);
#endif
    fprintf(stderr, "config %s is not in group %d\n", config.c_str(), GROUP);
    return 2;
}
