"""Per-property check plans: which harness binaries to build, which worker jobs to run at each tier,
and how the workers' counters become the evidence file."""
import os

from vcheck import Build, INCLUDE, Job, Outcome, VERIF, build_all, collect, gather_samples, run_jobs, sum_counter, build_dir, log

# ------------------------------------------------------------------------------ E1 (C01-C06, C16)
E1_GROUPS = {
    "dir_NoLabel": 0, "und_NoLabel": 0, "dir_int": 1, "und_int": 1, "dir_string": 2, "und_string": 2,
    "dir_struct": 3, "und_struct": 3, "dir_empty": 3, "und_empty": 3, "dir_double": 4, "dir_unsigned": 4, "dir_char": 4,
    "und_double": 5, "und_unsigned": 5, "und_char": 5, "dmulti": 6, "umulti": 6, "dweighted": 7, "uweighted": 7,
}


def e1_build(group):
    return Build("e1_props_g%d" % group, "harness/e1_props.cpp", flags=["-O2", "-DGROUP=%d" % group])


# (config, variant) lists per property and tier.  Variants: n2 = fixpoint on <=2 vertices with the
# complete key and the default label in the alphabet; n3 = fixpoint on <=3 vertices; n3dK = depth K
# from the empty 2- and 3-vertex graphs; n4dK likewise for 3/4 vertices.
E1_PLANS = {
    "C01": {
        "quick": [(c, "n2") for c in ("dir_NoLabel", "dir_int", "dir_string", "dir_struct", "dir_double")] +
                 [("dir_NoLabel", "n3"), ("dir_int", "n3d3"), ("dir_string", "n3d3"), ("dir_struct", "n3d3")] + [("dir_NoLabel", "bigger"), ("dir_string", "bigger"), ("dir_int", "n2x"), ("dir_NoLabel", "n1s4")],
        "thorough": [(c, "n2") for c in ("dir_NoLabel", "dir_int", "dir_string", "dir_struct", "dir_double", "dir_unsigned", "dir_char")] +
                    [(c, "n3") for c in ("dir_NoLabel", "dir_int", "dir_string", "dir_struct")] + [("dir_NoLabel", "n4d5"), ("dir_int", "n4d4")] + [("dir_NoLabel", "bigger"), ("dir_string", "bigger"), ("dir_int", "n2x"), ("dir_NoLabel", "n1s4")] + [("dir_NoLabel", "big"), ("dir_string", "big"), ("dir_string", "n2x"), ("dir_struct", "n2x"), ("dir_int", "n1s4")],
    },
    "C02": {
        "quick": [(c, "n2") for c in ("und_NoLabel", "und_int", "und_string", "und_struct", "und_double")] +
                 [("und_NoLabel", "n3"), ("und_int", "n3d4"), ("und_string", "n3d3"), ("und_struct", "n3d3")] + [("und_NoLabel", "bigger"), ("und_string", "bigger"), ("und_int", "n2x"), ("und_NoLabel", "n1s4")],
        "thorough": [(c, "n2") for c in ("und_NoLabel", "und_int", "und_string", "und_struct", "und_double", "und_unsigned", "und_char")] +
                    [(c, "n3") for c in ("und_NoLabel", "und_int", "und_string", "und_struct")] + [("und_NoLabel", "n4d5"), ("und_int", "n4d4")] + [("und_NoLabel", "bigger"), ("und_string", "bigger"), ("und_int", "n2x"), ("und_NoLabel", "n1s4")] + [("und_NoLabel", "big"), ("und_string", "big"), ("und_string", "n2x"), ("und_struct", "n2x"), ("und_int", "n1s4")],
    },
    "C03": {
        "quick": [(d + t, "n2") for d in ("dir_", "und_") for t in ("int", "unsigned", "double", "char", "string", "struct")] +
                 [("dir_int", "n3d3"), ("und_int", "n3d4"), ("dir_string", "n3d3"), ("und_struct", "n3d3")] + [("dir_string", "bigger"), ("und_string", "bigger"), ("dir_string", "n2x"), ("und_struct", "n2x"), ("und_int", "n1s4"), ("dir_int", "n2dedup"), ("und_string", "n2dedup"), ("dir_empty", "n2"), ("und_empty", "n2")],
        "thorough": [(d + t, "n2") for d in ("dir_", "und_") for t in ("int", "unsigned", "double", "char", "string", "struct")] +
                    [(d + t, "n3") for d in ("dir_", "und_") for t in ("int", "string", "struct", "double")] + [("dir_string", "bigger"), ("und_string", "bigger"), ("dir_string", "n2x"), ("und_struct", "n2x"), ("und_int", "n1s4"), ("dir_int", "n2dedup"), ("und_string", "n2dedup"), ("dir_empty", "n2"), ("und_empty", "n2")] + [("dir_int", "big"), ("und_string", "big"), ("dir_int", "n2x"), ("und_int", "n2x"), ("dir_double", "n2x"), ("und_char", "n2x"), ("dir_unsigned", "n2x"), ("dir_empty", "n3"), ("und_empty", "n3")],
    },
    "C04": {
        "quick": [("dmulti", "n2"), ("umulti", "n2"), ("dmulti", "n3d3"), ("umulti", "n3d4")] + [("dmulti", "bigger"), ("umulti", "bigger"), ("dmulti", "n2x"), ("umulti", "n2x"), ("dmulti", "n1s4"), ("umulti", "n1s4")],
        "thorough": [("dmulti", "n2"), ("umulti", "n2"), ("dmulti", "n3"), ("umulti", "n3")] + [("dmulti", "bigger"), ("umulti", "bigger"), ("dmulti", "n2x"), ("umulti", "n2x"), ("dmulti", "n1s4"), ("umulti", "n1s4")] + [("dmulti", "big"), ("umulti", "big")],
    },
    "C05": {
        "quick": [("dweighted", "n2"), ("uweighted", "n2"), ("dweighted", "n2tiny"), ("uweighted", "n2tiny"), ("dweighted", "n3d3"), ("uweighted", "n3d4")] + [("dweighted", "bigger"), ("uweighted", "bigger"), ("dweighted", "n2x"), ("uweighted", "n2x"), ("dweighted", "n1s4"), ("uweighted", "n1s4")],
        "thorough": [("dweighted", "n2"), ("uweighted", "n2"), ("dweighted", "n2tiny"), ("uweighted", "n2tiny"), ("dweighted", "n3a"), ("uweighted", "n3a"), ("dweighted", "n3b"), ("uweighted", "n3b")] + [("dweighted", "bigger"), ("uweighted", "bigger"), ("dweighted", "n2x"), ("uweighted", "n2x"), ("dweighted", "n1s4"), ("uweighted", "n1s4")] + [("dweighted", "big"), ("uweighted", "big")],
    },
    "C06": {
        "quick": [(c, "n2") for c in ("dir_NoLabel", "und_NoLabel", "dir_int", "und_int", "dir_string", "und_string", "dmulti", "umulti", "dweighted", "uweighted")] +
                 [("dir_NoLabel", "n3"), ("und_NoLabel", "n3"), ("dir_int", "n3d3"), ("und_int", "n3d3"), ("dmulti", "n3d3"), ("umulti", "n3d3"), ("dweighted", "n3d3"), ("uweighted", "n3d3")] + [("dir_string", "bigger"), ("und_string", "bigger"), ("uweighted", "bigger"), ("dweighted", "bigger"), ("umulti", "bigger"), ("dir_NoLabel", "bigger"), ("und_string", "n2x"), ("dweighted", "n2odd"), ("uweighted", "n2odd")],
        "thorough": [("uweighted", "n2x")] + [(c, "n2") for c in ("dir_NoLabel", "und_NoLabel", "dir_int", "und_int", "dir_string", "und_string", "dir_struct", "und_struct", "dmulti", "umulti", "dweighted", "uweighted")] +
                    [(c, "n3") for c in ("dir_NoLabel", "und_NoLabel", "dir_int", "und_int", "dmulti", "umulti", "dweighted", "uweighted")] + [("dir_string", "bigger"), ("und_string", "bigger"), ("uweighted", "bigger"), ("dweighted", "bigger"), ("umulti", "bigger"), ("dir_NoLabel", "bigger"), ("und_string", "n2x"), ("uweighted", "n2x")] + [("und_string", "big"), ("umulti", "big"), ("dir_int", "big"), ("dir_empty", "n2"), ("und_empty", "n2")],
    },
    "C16": {
        "quick": [(c, "n2") for c in ("dir_NoLabel", "und_NoLabel", "dir_int", "und_int", "dmulti", "umulti", "dweighted", "uweighted")] +
                 [("dir_NoLabel", "n3d4"), ("und_NoLabel", "n3d4"), ("und_int", "n3d3"), ("umulti", "n3d3"), ("uweighted", "n3d3")] + [("und_NoLabel", "bigger"), ("und_string", "bigger"), ("umulti", "bigger"), ("dir_NoLabel", "bigger"), ("umulti", "n2x")],
        "thorough": [(c, "n2") for c in ("dir_NoLabel", "und_NoLabel", "dir_int", "und_int", "dir_string", "und_string", "dmulti", "umulti", "dweighted", "uweighted")] +
                    [(c, "n3d5") for c in ("dir_NoLabel", "und_NoLabel", "dir_int", "und_int", "dmulti", "umulti", "dweighted", "uweighted")] + [("und_NoLabel", "bigger"), ("und_string", "bigger"), ("umulti", "bigger"), ("dir_NoLabel", "bigger"), ("umulti", "n2x")] + [("und_NoLabel", "big"), ("dmulti", "bigger"), ("uweighted", "bigger")],
    },
}

E1_TEXT = {
    "C01": "directed graph = set of ordered pairs",
    "C02": "undirected graph = symmetric set of unordered pairs",
    "C03": "label lifetime",
    "C04": "multigraph counters",
    "C05": "weighted totals",
    "C06": "operator== is value equality",
    "C16": "forced duplicates",
}


def run_e1(prop, tier, deadline):
    outcome = Outcome(prop, tier, "model_checking")
    plan = E1_PLANS[prop][tier]
    builds = {}
    for cfg, _ in plan:
        g = E1_GROUPS[cfg]
        builds[g] = e1_build(g)
    built = build_all(list(builds.values()))
    for name, (ok, path, blog) in built.items():
        if not ok:
            outcome.add_violation("%s:compile:%s" % (prop, name), "the harness, a client of the documented public API, no longer compiles against /repo/include:\n" + blog[-3000:],
                                  {"build": name, "compile_log": blog[-6000:]})
    if outcome.violations:
        outcome.coverage = {"states": 0, "transitions": 0, "traces_validated_against_impl": 0, "samples": ["harness did not compile"], "evaluations": 1, "distinct_nontrivial": 0}
        return outcome
    jobs = []
    for cfg, variant in plan:
        b = builds[E1_GROUPS[cfg]]
        jobs.append(Job(b, ["--prop", prop, "--config", cfg, "--variant", variant, "--tier", tier], label="%s/%s" % (cfg, variant),
                        timeout=deadline + 300, deadline=deadline))
    workdir = os.path.join(build_dir(), "work-%s-%s-%d" % (prop, tier, os.getpid()))
    heavy = sum(1 for _, v in plan if v in ("n3", "n3a", "n3b", "n4d5"))
    run_jobs(jobs, built, workdir, max_parallel=8 if heavy > 8 else None)
    results = collect(outcome, jobs, built)
    import shutil
    shutil.rmtree(workdir, ignore_errors=True)
    per_cfg = {}
    for r in results:
        for k, v in r.get("info", {}).items():
            per_cfg[k] = v
    outcome.coverage = {
        "states": sum_counter(results, "states"),
        "transitions": sum_counter(results, "transitions"),
        "traces_validated_against_impl": sum_counter(results, "traces_validated"),
        "samples": gather_samples(results, 8),
        "abstract_values": sum_counter(results, "abstract_values"),
        "history_dependent_states": sum_counter(results, "history_dependent_states"),
        "clause_evaluations": sum_counter(results, "clause_evaluations"),
        "rejected_steps": sum_counter(results, "rejected_steps"),
        "noop_steps": sum_counter(results, "noop_steps"),
        "cut_transitions_at_caps": sum_counter(results, "cut_transitions"),
        "pairs_compared": sum_counter(results, "pairs_compared"),
        "stateless_histories": sum_counter(results, "stateless_histories"),
        "silent_suffix_runs": sum_counter(results, "silent_suffix_runs"),
        "merge_differential_steps": sum_counter(results, "merge_differential_steps"),
        "hidden_state_variants": sum_counter(results, "hidden_state_variants"),
        "constructor_built_states": sum_counter(results, "constructor_built_states"),
        "rejected_call_probes": sum_counter(results, "rejected_call_probes"),
        "configurations": per_cfg,
        "explanation": "Stateful BFS over the reachable states of the real graph objects (values, copied per transition) in lock-step with a std::map reference model; "
                       "every transition's outcome and every public observer in every new state compared with the model (%s). "
                       "traces_validated_against_impl = stored states whose shortest history was re-executed on a fresh object and reached the same public-API key, model value and operator== verdict." % E1_TEXT[prop],
    }
    outcome.assumptions = [
        "bounded scope: vertex counts, label/weight/multiplicity alphabets, copy and depth caps as listed per configuration",
        "states with equal public-API key AND operator== equal are merged (DESIGN.md E1 gives the argument; objects with equal key but unequal under == are kept apart)",
        "reference model in mc/model.hpp is the specification of the statement; compiler g++ -O2",
    ]
    return outcome


# ------------------------------------------------------------------------------------------- C07
C07_GROUPS = {"dir_NoLabel": 0, "und_NoLabel": 1, "dir_int": 2, "und_int": 3, "dir_string": 4, "und_string": 5, "dmulti": 6, "umulti": 7, "dweighted": 8, "uweighted": 9}
SAN_FLAGS = ["-O1", "-fsanitize=address,undefined", "-fno-sanitize-recover=undefined", "-fno-omit-frame-pointer"]
SAN_ENV = {"ASAN_OPTIONS": "detect_leaks=0:abort_on_error=1:max_allocation_size_mb=1024:allocator_may_return_null=0", "UBSAN_OPTIONS": "halt_on_error=1:abort_on_error=1:print_stacktrace=1"}


def c07_build(group):
    return Build("c07_g%d" % group, "harness/c07.cpp", compiler="clang++", flags=SAN_FLAGS + ["-DGROUP=%d" % group])


def compile_failures(outcome, built):
    bad = False
    for name, (ok, path, blog) in built.items():
        if not ok:
            bad = True
            outcome.add_violation("%s:compile:%s" % (outcome.prop, name), "the harness, a client of the documented public API, no longer compiles against /repo/include:\n" + blog[-3000:],
                                  {"build": name, "compile_log": blog[-6000:]})
    return bad


def run_c07(tier, deadline):
    import shutil
    outcome = Outcome("C07", tier, "fault_enumeration")
    variants = ["n2"] if tier == "quick" else ["n2", "n3d3"]
    builds = {c: c07_build(g) for c, g in C07_GROUPS.items()}
    built = build_all(list(builds.values()))
    if compile_failures(outcome, built):
        outcome.coverage = {"evaluations": 1, "distinct_nontrivial": 0, "rule": "harness did not compile", "samples": ["compile failure"]}
        return outcome
    jobs = []
    for c in ("dir_NoLabel", "und_string", "dweighted", "umulti") if tier == "quick" else list(C07_GROUPS):
        jobs.append(Job(builds[c], ["--config", c, "--variant", "huge", "--tier", tier], label="%s/huge" % c, timeout=deadline + 300, deadline=deadline, env=SAN_ENV))
    for c in C07_GROUPS:
        for v in variants:
            jobs.append(Job(builds[c], ["--config", c, "--variant", v, "--tier", tier], label="%s/%s" % (c, v), timeout=deadline + 300, deadline=deadline, env=SAN_ENV))
    workdir = os.path.join(build_dir(), "work-C07-%s-%d" % (tier, os.getpid()))
    run_jobs(jobs, built, workdir)
    results = collect(outcome, jobs, built)
    shutil.rmtree(workdir, ignore_errors=True)
    eps = {}
    for r in results:
        for k, v in r.get("info", {}).items():
            if k.startswith("entry_points:"):
                eps[k[len("entry_points:"):]] = v
    outcome.coverage = {
        "evaluations": sum_counter(results, "rejected_calls"),
        "distinct_nontrivial": sum_counter(results, "rejected_calls_on_nonempty_graphs"),
        "rule": "case = (reachable graph state, invalid call): every public entry point taking a vertex index, each argument position out of range (size, size+1, UINT_MAX) with every valid value in the "
                "other positions, both force values; getSubgraph(WithRemap) with a bad member; the path searches from/to a missing vertex; resize-down, unforced setEdgeLabel and getEdgeLabel/Weight on every absent pair. "
                "States = E1 fixpoint on <=2 vertices (thorough: plus depth-3 frontier on 3 vertices). All cases are distinct by construction; non-trivial = the state has at least one edge.",
        "samples": gather_samples(results, 4) + [{"entry_points_exercised": eps}],
        "states": sum_counter(results, "states"),
        "entry_points": sum_counter(results, "entry_points"),
        "sanitizers": "clang++ -fsanitize=address,undefined -fno-sanitize-recover=undefined; abort_on_error",
    }
    outcome.assumptions = ["out-of-range values tried: size, size+1, UINT_MAX", "each rejected call is shown to be a self-loop of the state graph in every reachable state, so interleavings with valid calls follow by induction",
                           "an out-of-bounds access is detected by AddressSanitizer/UBSan in the worker (clang 14)"]
    return outcome


# ------------------------------------------------------------------------------- C08, C09, C10
SHAPES_GROUPS = {"dir_NoLabel": 0, "und_NoLabel": 1, "dir_int": 2, "und_int": 3, "dir_string": 4, "und_string": 5, "dmulti": 6, "umulti": 6,
                 "dweighted": 7, "uweighted": 7, "dir_struct": 8, "und_struct": 8}


def shapes_build(group, opt="-O2"):
    return Build("shapes_g%d%s" % (group, "" if opt == "-O2" else opt.replace("-", "_")), "harness/shapes.cpp", flags=[opt, "-DGROUP=%d" % group])


PLAIN6 = ["dir_NoLabel", "und_NoLabel", "dir_int", "und_int", "dir_string", "und_string"]
ALL10 = PLAIN6 + ["dmulti", "umulti", "dweighted", "uweighted"]
SHAPES_PLANS = {
    "C08": {
        "quick": [(c, "n2", []) for c in ALL10] + [("dir_NoLabel", "n3", []), ("und_NoLabel", "n3", [])] +
                 [(c, "n3d3", []) for c in ("dir_int", "und_int", "dmulti", "umulti", "dweighted", "uweighted")] +
                 [("dir_NoLabel", "e2n4", ["--nofiles"]), ("und_NoLabel", "e2n5", ["--nofiles"]), ("dmulti", "e2n3", []), ("umulti", "e2n3", []), ("dweighted", "e2n3", []), ("uweighted", "e2n3", [])] + [(c, "big", []) for c in ("dir_int", "und_string")] + [("und_NoLabel", "huge", []), ("dir_NoLabel", "huge", [])],
        "thorough": [(c, "huge", []) for c in ("und_NoLabel", "dir_NoLabel", "und_int", "uweighted")] + [(c, "big", []) for c in PLAIN6] + [(c, "n2", []) for c in ALL10] + [(c, "n3", []) for c in ALL10] +
                    [("dir_NoLabel", "e2n4", []), ("und_NoLabel", "e2n5", []), ("dir_int", "e2n4", ["--nofiles"]), ("und_int", "e2n5", ["--nofiles"]),
                     ("dmulti", "e2n4", ["--nofiles"]), ("umulti", "e2n5", ["--nofiles"]), ("dweighted", "e2n4", ["--nofiles"]), ("uweighted", "e2n5", ["--nofiles"])],
    },
    "C09": {
        "quick": [(c, "n2", []) for c in ALL10] + [("dir_NoLabel", "n3", []), ("und_NoLabel", "n3", [])] + [(c, "n3d3", []) for c in ("dir_int", "und_int", "dir_string", "und_string")] +
                 [(c, "ctor", ["--len", "2"]) for c in ALL10 + ["dir_struct", "und_struct"]] + [(c, "ctorlong", []) for c in ALL10 + ["dir_struct", "und_struct"]] + [(c, "big", []) for c in PLAIN6],
        "thorough": [(c, "n2", []) for c in ALL10] + [(c, "n3d3", []) for c in ("dmulti", "umulti", "dweighted", "uweighted")] + [(c, "n3", []) for c in PLAIN6] + [(c, "ctor", ["--len", "3"]) for c in ALL10 + ["dir_struct", "und_struct"]] +
                    [(c, "ctorlong", []) for c in ALL10 + ["dir_struct", "und_struct"]] + [(c, "big", []) for c in PLAIN6],
    },
    "C10": {
        "quick": [(c, "n2", []) for c in PLAIN6] + [("dir_NoLabel", "n3", []), ("und_NoLabel", "n3", [])] + [(c, "n3d3", []) for c in ("dir_int", "und_int", "dir_string", "und_string")] +
                 [("dir_NoLabel", "e2n4", ["--noloops"]), ("und_NoLabel", "e2n4", []), ("dir_int", "e2n3", []), ("und_int", "e2n4", [])] + [(c, "big", []) for c in ("dir_NoLabel", "und_int", "dir_string", "und_NoLabel")],
        "thorough": [(c, "n2", []) for c in PLAIN6] + [("dir_NoLabel", "n3", []), ("und_NoLabel", "n3", [])] + [(c, "n3d4", []) for c in ("dir_int", "und_int", "dir_string", "und_string")] +
                    [("dir_NoLabel", "e2n4", []), ("und_NoLabel", "e2n5", []), ("dir_int", "e2n4", []), ("und_int", "e2n5", [])] + [(c, "big", []) for c in PLAIN6],
    },
}
SHAPES_RULE = {
    "C08": "case = one graph (a reachable state of the E1 search on <=3 vertices, every insertion order; or every edge set on 4 (directed) / 5 (undirected) vertices built in ascending, descending and swapped order): "
           "vertex range-for, edges() by pre-/post-increment, repeated traversal, begin()==end(), multiset of edges vs. model, and every operation defined by edge enumeration (in-degrees, adjacency matrix, "
           "reversal, conversions, text and binary writers) must be defined and right. Non-trivial = the graph has at least one edge.",
    "C09": "case = one graph state (E1 search, all labellings over a 2-value alphabet, with setEdgeLabel in the histories) checked for reversal, reversal twice, directed<->undirected conversions, and (all ten classes) copy construction / copy assignment over empty and non-empty targets / self-assignment / move construction / move assignment; "
           "or one edge sequence of length <= L over indices {0,1,2,4} x values, with repeats, passed to the edge-list constructor in vector/list/deque/forward_list/set/multiset and compared with one-at-a-time insertion. "
           "Non-trivial = graph with an edge / sequence of at least two edges.",
    "C10": "case = (graph, vertex subset S [, a preceding rejected call with an out-of-range member and subset T]): getSubgraph and getSubgraphWithRemap compared with the induced subgraph of the model "
           "(remap: any bijection S -> 0..|S|-1). Graphs = E1 states on <=3 vertices (all insertion orders, labellings) and every edge set on 4-5 vertices; all 2^n subsets. "
           "Non-trivial = the induced subgraph has an edge and differs from the whole graph.",
}


def run_shapes(prop, tier, deadline):
    import shutil
    outcome = Outcome(prop, tier, "exploration")
    plan = SHAPES_PLANS[prop][tier]
    builds = {}
    for cfg, variant, _ in plan:
        g = SHAPES_GROUPS[cfg]
        # the huge shapes are run unoptimised: g++ -O2 turns a self-recursive iterator into a loop
        builds[(g, variant == "huge")] = shapes_build(g, "-O0" if variant == "huge" else "-O2")
    built = build_all(list(builds.values()))
    if compile_failures(outcome, built):
        outcome.coverage = {"evaluations": 1, "distinct_nontrivial": 0, "rule": "harness did not compile", "samples": ["compile failure"]}
        return outcome
    workdir = os.path.join(build_dir(), "work-%s-%s-%d" % (prop, tier, os.getpid()))
    jobs = []
    for k, (cfg, variant, extra) in enumerate(plan):
        tmpd = os.path.join(workdir, "t%d" % k)
        os.makedirs(tmpd, exist_ok=True)
        jobs.append(Job(builds[(SHAPES_GROUPS[cfg], variant == "huge")], ["--prop", prop, "--config", cfg, "--variant", variant, "--tier", tier, "--tmpdir", tmpd] + extra,
                        label="%s/%s" % (cfg, variant), timeout=deadline + 300, deadline=deadline))
    run_jobs(jobs, built, workdir)
    results = collect(outcome, jobs, built)
    shutil.rmtree(workdir, ignore_errors=True)
    per = {}
    for r in results:
        per[r.get("config", "?")] = {"cases": r.get("counters", {}).get("cases", 0), "states": r.get("counters", {}).get("states", 0),
                                     "shapes": r.get("counters", {}).get("shapes", 0), "exhaustive": r.get("exhaustive", True)}
    outcome.coverage = {
        "evaluations": sum_counter(results, "cases"),
        "distinct_nontrivial": sum_counter(results, "nontrivial_cases"),
        "rule": SHAPES_RULE[prop],
        "samples": gather_samples(results, 8),
        "e1_states": sum_counter(results, "states"),
        "e1_transitions": sum_counter(results, "transitions"),
        "e2_shapes": sum_counter(results, "shapes"),
        "ctor_cases": sum_counter(results, "ctor_cases"),
        "clause_evaluations": sum_counter(results, "clause_evaluations"),
        "configurations": per,
    }
    outcome.assumptions = ["bounded scope as listed per configuration; reference model mc/model.hpp; g++ -O2"]
    return outcome


# ------------------------------------------------------------------------------- C11, C12, C19
PATHS_GROUPS = {"dir": 0, "und": 1, "dw": 2, "uw": 3}


def paths_build(group):
    return Build("paths_g%d" % group, "harness/paths.cpp", flags=["-O2", "-DGROUP=%d" % group])


def J(cfg, source, **kw):
    args = ["--config", cfg, "--source", source]
    for k, v in kw.items():
        if v is True:
            args += ["--" + k]
        else:
            args += ["--" + k, str(v)]
    return (cfg, args)


def sharded(cfg, source, shards, **kw):
    return [J(cfg, source, shard=k, shards=shards, **kw) for k in range(shards)]


PATHS_PLANS = {
    "C11": {
        "quick": [J("dir", "e1", n=3), J("und", "e1", n=3), J("dir", "e2", n=4), J("und", "e2", n=5), J("und", "e2", n=6, noloops=True, maxedges=7),
                  J("dir", "layered", maxv=12), J("und", "layered", maxv=12), J("dir", "grid", side=5), J("und", "grid", side=5), J("dir", "dense", maxn=7), J("und", "dense", maxn=7),
                  J("dir", "perm", n=4, edges=5), J("und", "perm", n=4, edges=5), J("dir", "chains", maxn=200), J("und", "chains", maxn=200), J("dir", "snake", maxt=12), J("und", "snake", maxt=12),
                  J("dir", "dups", n=3), J("und", "dups", n=3)],
        "thorough": [J("dir", "chains", maxn=300), J("und", "chains", maxn=300), J("dir", "snake", maxt=20), J("und", "snake", maxt=20), J("dir", "dups", n=3), J("und", "dups", n=4), J("dir", "e1", n=3), J("und", "e1", n=3), J("dir", "e2", n=4), J("und", "e2", n=5), J("und", "e2", n=6, noloops=True),
                     J("dir", "layered", maxv=14), J("und", "layered", maxv=14), J("dir", "grid", side=5), J("und", "grid", side=5), J("dir", "dense", maxn=8), J("und", "dense", maxn=8),
                     J("dir", "perm", n=4, edges=6), J("und", "perm", n=4, edges=6), J("und", "perm", n=5, edges=6)] + sharded("dir", "e2", 8, n=5, noloops=True, maxedges=8),
    },
    "C12": {
        "quick": [J("dw", "lists", n=3, weights="1,3"), J("dw", "e2", n=3, weights="0,1,3"), J("uw", "e2", n=3, weights="0,1,3"), J("dw", "e2", n=4, noloops=True, weights="0,1", maxedges=7),
                  J("uw", "e2", n=4, weights="0,1"), J("uw", "perm", n=4, edges=6, weights="1,3,8"), J("dw", "perm", n=4, edges=5, weights="0,2"),
                  J("dw", "dense", maxn=8, weight=0), J("uw", "dense", maxn=8, weight=0), J("dw", "ladder", maxl=26), J("uw", "ladder", maxl=26),
                  J("dw", "layered", maxv=11, weight=0), J("uw", "layered", maxv=11, weight=1), J("dw", "grid", side=5, weight=1), J("uw", "grid", side=5, weight=0),
                  J("dw", "e2", n=4, noloops=True, weights="1,33554432,33554434", halves=True, maxedges=5), J("uw", "perm", n=4, edges=5, weights="1,33554432,33554434", halves=True), J("uw", "e2", n=4, weights="1,16777217"),
                  J("dw", "chains", maxn=130), J("uw", "chains", maxn=130), J("dw", "snake", maxt=12), J("uw", "snake", maxt=12),
                  J("uw", "e2", n=5, noloops=True, weights="1,5"), J("uw", "e2", n=5, noloops=True, weights="0,2")],
        "thorough": [J("dw", "lists", n=3, weights="0,1,3"), J("dw", "e2", n=3, weights="0,1,3,8"), J("uw", "e2", n=3, weights="0,1,3,8"), J("uw", "e2", n=4, weights="0,1,3"),
                     J("uw", "perm", n=4, edges=6, weights="1,2,3,6,8"), J("uw", "perm", n=4, edges=5, weights="0,1,3,8"), J("dw", "perm", n=4, edges=5, weights="0,1,3"), J("dw", "perm", n=4, edges=6, weights="1,3"),
                     J("dw", "dense", maxn=9, weight=0), J("uw", "dense", maxn=9, weight=0), J("dw", "ladder", maxl=30), J("uw", "ladder", maxl=30),
                     J("dw", "layered", maxv=13, weight=0), J("uw", "layered", maxv=13, weight=1), J("dw", "grid", side=6, weight=1), J("uw", "grid", side=6, weight=0)] +
                    sharded("dw", "e2", 12, n=4, noloops=True, weights="0,1,3") + sharded("uw", "e2", 4, n=5, noloops=True, weights="0,1,3") +
                    [J("dw", "e2", n=4, noloops=True, weights="1,33554432,33554434", halves=True, maxedges=6), J("uw", "perm", n=4, edges=6, weights="1,33554432,33554434", halves=True), J("dw", "chains", maxn=300), J("uw", "chains", maxn=300),
                     J("dw", "snake", maxt=30), J("uw", "snake", maxt=30)] + sharded("dw", "subsets", 8, n=5, edges=5, weights="1,3,8"),
    },
    "C19": {
        "quick": [J("dir", "layered", maxv=14), J("und", "layered", maxv=14), J("dir", "grid", side=6), J("und", "grid", side=6), J("dir", "dense", maxn=9), J("und", "dense", maxn=9),
                  J("dir", "e2", n=4), J("und", "e2", n=5), J("dir", "e1", n=3), J("und", "e1", n=3),
                  J("dw", "ladder", maxl=28), J("uw", "ladder", maxl=28), J("dw", "dense", maxn=9, weight=0), J("uw", "dense", maxn=9, weight=0),
                  J("dw", "layered", maxv=12, weight=0), J("uw", "layered", maxv=12, weight=0), J("dw", "layered", maxv=12, weight=1), J("uw", "layered", maxv=12, weight=1),
                  J("dw", "grid", side=6, weight=0), J("uw", "grid", side=6, weight=1), J("dw", "lists", n=3, weights="1,3"), J("dw", "e2", n=3, weights="0,1,3"), J("uw", "e2", n=3, weights="0,1,3"),
                  J("uw", "perm", n=4, edges=6, weights="1,3,8"), J("dw", "e2", n=4, noloops=True, weights="0,1", maxedges=7),
                  J("uw", "perm", n=4, edges=5, weights="1,3,8", tail=12), J("dw", "ladder", maxl=12, tail=8),
                  J("dir", "snake", maxt=48), J("und", "snake", maxt=48), J("dw", "snake", maxt=30), J("uw", "snake", maxt=30), J("dir", "chains", maxn=300), J("und", "chains", maxn=300), J("dw", "chains", maxn=300)],
        "thorough": [J("dir", "layered", maxv=16), J("und", "layered", maxv=16), J("dir", "grid", side=8), J("und", "grid", side=8), J("dir", "dense", maxn=10), J("und", "dense", maxn=10),
                     J("dir", "e2", n=4), J("und", "e2", n=5), J("und", "e2", n=6, noloops=True), J("dir", "e1", n=3), J("und", "e1", n=3),
                     J("dw", "ladder", maxl=40), J("uw", "ladder", maxl=40), J("dw", "dense", maxn=10, weight=0), J("uw", "dense", maxn=10, weight=0),
                     J("dw", "layered", maxv=14, weight=0), J("uw", "layered", maxv=14, weight=0), J("dw", "layered", maxv=14, weight=1), J("uw", "layered", maxv=14, weight=1),
                     J("dw", "grid", side=8, weight=0), J("uw", "grid", side=8, weight=1), J("dw", "lists", n=3, weights="0,1,3"), J("uw", "e2", n=4, weights="0,1,3"),
                     J("uw", "perm", n=4, edges=6, weights="1,2,3,6,8"), J("uw", "perm", n=4, edges=6, weights="1,3,8", tail=20), J("dw", "perm", n=4, edges=5, weights="1,3,8", tail=16), J("dir", "snake", maxt=80), J("und", "snake", maxt=80), J("dw", "snake", maxt=60), J("uw", "snake", maxt=60),
                     J("dir", "chains", maxn=300), J("und", "chains", maxn=300), J("dw", "chains", maxn=300), J("uw", "chains", maxn=300)] + sharded("dw", "e2", 12, n=4, noloops=True, weights="0,1,3") +
                    sharded("dw", "subsets", 8, n=5, edges=5, weights="1,3,8"),
    },
}
PATHS_RULE = {
    "C11": "case = (graph, source vertex); all destinations inside. Graphs: every reachable 3-vertex state (all neighbour-list orders), every digraph with loops on 4 vertices and undirected graph on 5 (6 loop-free) "
           "in 2-3 insertion orders, every 5-edge subgraph of K4 in every insertion order, layered graphs (all width sequences in {1,2,3}), grids, complete graphs and cycles. Oracle: independent BFS distances and "
           "exhaustive enumeration of all shortest paths on the model. Non-trivial = graph has an edge.",
    "C12": "case = (weighted graph, source). Graphs: every ordered-neighbour-list digraph on 3 vertices, every weighted edge set on 3-4 vertices over the weight alphabet, K4 in every insertion order with every weight "
           "assignment, zero-weight complete graphs/cycles, shortcut ladders, layered graphs, grids. Oracle: Bellman-Ford in integers; predecessor edge/sum clause; predecessor walk reaches the source. "
           "Non-trivial = some vertex has two in-neighbours achieving its minimum (a tie).",
    "C19": "case = (graph, source): number of getOutNeighbours calls made through a counting wrapper type vs. the bounds V, V+E, V+E+1; families with exponentially many shortest paths (layered, grids), zero-weight "
           "complete graphs and cycles, shortcut ladders, plus the exhaustive small enumerations. Non-trivial = E > V.",
}


def run_paths(prop, tier, deadline):
    import shutil
    outcome = Outcome(prop, tier, "exploration")
    plan = PATHS_PLANS[prop][tier]
    builds = {g: paths_build(g) for g in set(PATHS_GROUPS[c] for c, _ in plan)}
    built = build_all(list(builds.values()))
    if compile_failures(outcome, built):
        outcome.coverage = {"evaluations": 1, "distinct_nontrivial": 0, "rule": "harness did not compile", "samples": ["compile failure"]}
        return outcome
    workdir = os.path.join(build_dir(), "work-%s-%s-%d" % (prop, tier, os.getpid()))
    jobs = [Job(builds[PATHS_GROUPS[cfg]], ["--prop", prop, "--tier", tier] + args, label=" ".join(args), timeout=deadline + 300, deadline=deadline) for cfg, args in plan]
    run_jobs(jobs, built, workdir)
    results = collect(outcome, jobs, built)
    shutil.rmtree(workdir, ignore_errors=True)
    per = {}
    worst = {}
    for r in results:
        per[r.get("config", "?")] = {"graphs": r.get("counters", {}).get("graphs", 0), "cases": r.get("counters", {}).get("cases", 0), "exhaustive": r.get("exhaustive", True)}
        for k, v in r.get("info", {}).items():
            if k.startswith("worst_work:") and v:
                worst[k[len("worst_work:"):]] = v
    outcome.coverage = {
        "evaluations": sum_counter(results, "cases"),
        "distinct_nontrivial": sum_counter(results, "nontrivial_cases"),
        "rule": PATHS_RULE[prop],
        "samples": gather_samples(results, 8),
        "graphs": sum_counter(results, "graphs"),
        "all_shortest_path_enumerations_skipped_above_2000_paths": sum_counter(results, "allpaths_skipped"),
        "configurations": per,
    }
    if prop == "C19":
        outcome.coverage["worst_work_per_configuration"] = worst
    outcome.assumptions = ["bounded scope as listed per configuration", "integer (dyadic) weights so that path sums are exact", "reference algorithms in harness/paths.cpp (BFS, Bellman-Ford, path enumeration) are the specification"]
    return outcome


# ------------------------------------------------------------------------------- C13, C14, C15
IO_GROUPS = {"dir_NoLabel": 0, "und_NoLabel": 0, "dir_int": 0, "und_int": 0, "dir_string": 1, "und_string": 1, "dir_double": 1, "und_double": 1,
             "dir_u8": 2, "und_i8": 2, "dir_i16": 2, "und_u32": 2, "dir_i64": 3, "und_u64": 3, "dir_float": 3, "und_char": 3, "-": 0}


def io_build(group, san=False, init="pattern"):
    if san:
        return Build("io_san_%s_g%d" % (init, group), "harness/io.cpp", compiler="clang++",
                     flags=SAN_FLAGS + ["-ftrivial-auto-var-init=" + init, "-DGROUP=%d" % group] +
                     (["-enable-trivial-auto-var-init-zero-knowing-it-will-be-removed-from-clang"] if init == "zero" else []))
    return Build("io_g%d" % group, "harness/io.cpp", flags=["-O2", "-DGROUP=%d" % group])


def P(part, config="-", **kw):
    args = ["--part", part, "--config", config]
    for k, v in kw.items():
        args += ["--" + k, str(v)]
    return (config, args)


IO_PLANS = {
    "C13": {
        "quick": [P("roundtrip", c, len=3) for c in ("dir_NoLabel", "und_NoLabel", "dir_int", "und_int")] + [P("roundtrip", c, len=2) for c in ("dir_string", "und_string", "dir_double", "und_double")] +
                 [P("format", len=2), P("names", len=3)] + [P("bigtext", c) for c in ("dir_NoLabel", "und_int", "dir_string")],
        "thorough": [P("roundtrip", c, len=4) for c in ("dir_NoLabel", "und_NoLabel")] + [P("roundtrip", c, len=3) for c in ("dir_int", "und_int", "dir_string", "und_string", "dir_double", "und_double")] +
                    [P("format", len=3), P("names", len=4)] + [P("bigtext", c) for c in ("dir_NoLabel", "und_NoLabel", "dir_int", "und_int", "dir_string", "und_string", "dir_double")],
    },
    "C14": {
        "quick": [P("roundtrip", c, len=3) for c in ("dir_NoLabel", "und_NoLabel")] +
                 [P("roundtrip", c, len=2) for c in ("dir_int", "und_int", "dir_u8", "und_i8", "dir_i16", "und_u32", "dir_i64", "und_u64", "dir_float", "und_char", "dir_double", "und_double")] + [P("unopenable")] + [P("bigbin", c) for c in ("dir_NoLabel", "und_NoLabel", "dir_i16", "und_u64", "dir_int")],
        "thorough": [P("roundtrip", c, len=4) for c in ("dir_NoLabel", "und_NoLabel")] +
                    [P("roundtrip", c, len=3) for c in ("dir_int", "und_int", "dir_u8", "und_i8", "dir_i16", "und_u32", "dir_i64", "und_u64", "dir_float", "und_char", "dir_double", "und_double")] + [P("unopenable")] +
                    [P("bigbin", c) for c in ("dir_NoLabel", "und_NoLabel", "dir_int", "und_int", "dir_u8", "und_i8", "dir_i16", "und_u32", "dir_i64", "und_u64", "dir_float", "dir_double")],
    },
    "C15": {
        "quick": [P("cuts", c, len=3) for c in ("dir_NoLabel", "und_NoLabel")] + [P("cuts", c, len=2) for c in ("dir_u8", "dir_int", "und_int", "und_double", "dir_i64", "dir_i16")] +
                 [P("bigcuts", c) for c in ("dir_NoLabel", "und_NoLabel", "dir_int")] + [P("text", len=3)] + [P("bytes", "dir_NoLabel", len=9), P("bytes", "und_NoLabel", len=9), P("bytes", "dir_u8", len=10), P("bytes", "dir_i16", len=11)],
        "thorough": [P("cuts", c, len=4) for c in ("dir_NoLabel", "und_NoLabel")] + [P("cuts", c, len=3) for c in ("dir_u8", "dir_int", "und_int", "und_double", "dir_i64", "dir_i16", "und_u64", "dir_float")] +
                    [P("bigcuts", c) for c in ("dir_NoLabel", "und_NoLabel", "dir_int", "und_int", "dir_u8", "dir_i64", "und_double")] + [P("text", len=4, shard=k, shards=8) for k in range(8)] + [P("bytes", "dir_NoLabel", len=17), P("bytes", "und_NoLabel", len=17), P("bytes", "dir_u8", len=18), P("bytes", "dir_i16", len=13), P("bytes", "und_int", len=13)],
    },
}
IO_RULE = {
    "C13": "case = one graph (every sequence of <= L insertions of distinct pairs on 3 vertices x every label assignment from 3 values incl. the default/empty one, in graphs of 0, 3 and 4 vertices) written with writeTextEdgeList "
           "(explicit codec and default formatter) and read back; or one well-formed file of <= 2-3 lines from a ~90-line menu (comments, blanks/tabs before/between/after, one- and multi-word labels); or one file for the "
           "vertex-name loader (every sequence of <= 3-4 edges over names a, b, ab, 7, #x with leading blanks). Non-trivial = at least two edges / lines.",
    "C14": "case = one graph (same sequence enumeration) x label type (none, 1/2/4/8-byte integers, float, double; label values with all-distinct bytes): file length, bytes vs. an independent shift-based little-endian "
           "encoder in edges() order, load (size, == after resize), load twice, every permutation of <= 4 records; unopenable paths for every writer and loader. Non-trivial = at least two records.",
    "C15": "case = (written binary file, cut offset) for every offset 0..len of every file of the sequence enumeration; every token string up to length 3-4 over a 17-token alphabet (digits, -1, 12-digit number, +1, 1.5, x, #, "
           "blank, tab, LF, CR, NUL, 0xFF, the writer's header line) plus header+3-line files offered to five text loader instantiations; every byte string up to 9-18 bytes over a per-position alphabet offered as binary. "
           "ASan+UBSan build with -ftrivial-auto-var-init=pattern. Non-trivial = cut strictly inside a record / multi-token text.",
}


C14_STORE_CPP = r"""// one translation unit that writes files with the library
#include "BaseGraph/directed_graph.hpp"
#include "BaseGraph/undirected_graph.hpp"
#include "BaseGraph/fileio.hpp"
#include <string>
void storeGraphs(const std::string &dir) {
    BaseGraph::LabeledDirectedGraph<int> g(3);
    g.addEdge(0, 1, 7);
    g.addEdge(2, 2, -2);
    BaseGraph::io::writeBinaryEdgeList(g, dir + "/lab.bin");
    BaseGraph::UndirectedGraph u(3);
    u.addEdge(1, 2);
    BaseGraph::io::writeBinaryEdgeList(u, dir + "/plain.bin");
    BaseGraph::io::writeTextEdgeList(u, dir + "/plain.txt");
}
"""
C14_CHECK_CPP = r"""// another translation unit that reads them back (always called from main)
#include "BaseGraph/directed_graph.hpp"
#include "BaseGraph/undirected_graph.hpp"
#include "BaseGraph/fileio.hpp"
#include <cstdio>
#include <fstream>
#include <iterator>
#include <string>
static std::string slurp(const std::string &p) { std::ifstream f(p, std::ios::binary); return std::string(std::istreambuf_iterator<char>(f), std::istreambuf_iterator<char>()); }
int checkFiles(const std::string &dir) {
    int bad = 0;
    const unsigned char lab[] = {0,0,0,0, 1,0,0,0, 7,0,0,0,  2,0,0,0, 2,0,0,0, 0xfe,0xff,0xff,0xff};
    const unsigned char plain[] = {1,0,0,0, 2,0,0,0};
    if (slurp(dir + "/lab.bin") != std::string((const char *)lab, sizeof lab)) { printf("lab.bin is not the little-endian record sequence\n"); ++bad; }
    if (slurp(dir + "/plain.bin") != std::string((const char *)plain, sizeof plain)) { printf("plain.bin is not the little-endian record sequence\n"); ++bad; }
    if (bad) return bad;   // do not load bytes that are already wrong (indices could be huge)
    auto g = BaseGraph::io::loadBinaryEdgeList<BaseGraph::LabeledDirectedGraph, int>(dir + "/lab.bin");
    if (g.getSize() != 3 || g.getEdgeNumber() != 2 || !g.hasEdge(0, 1, 7) || !g.hasEdge(2, 2, -2)) { printf("lab.bin loads to another graph\n"); ++bad; }
    auto u = BaseGraph::io::loadBinaryEdgeList<BaseGraph::LabeledUndirectedGraph, BaseGraph::NoLabel>(dir + "/plain.bin");
    if (u.getSize() != 3 || u.getEdgeNumber() != 1 || !u.hasEdge(2, 1)) { printf("plain.bin loads to another graph\n"); ++bad; }
    auto t = BaseGraph::io::loadTextEdgeList<BaseGraph::LabeledUndirectedGraph, BaseGraph::NoLabel>(dir + "/plain.txt");
    if (t.first.getSize() != 3 || t.first.getEdgeNumber() != 1 || !t.first.hasEdge(1, 2)) { printf("plain.txt loads to another graph\n"); ++bad; }
    return bad;
}
"""
C14_MAIN_CPP = r"""#include <cstdlib>
#include <string>
void storeGraphs(const std::string &);
int checkFiles(const std::string &);
static std::string dir() { return std::getenv("C14_DIR"); }
#ifdef WRITE_AT_STARTUP
// the writer runs inside the constructor of a namespace-scope object: before main, and - depending on the link
// order - before the dynamic initialisation of the translation unit that contains the writer
static struct AtStartup { AtStartup() { storeGraphs(dir()); } } atStartup;
#endif
int main() {
#ifndef WRITE_AT_STARTUP
    storeGraphs(dir());
#endif
    return checkFiles(dir());
}
"""


def c14_when_and_where(outcome):
    """'the same bytes ... in any run': the writers are called from main and from the constructor of a namespace-scope
    object of another translation unit, with both link orders and both compilers (8 cells)."""
    import shutil
    import subprocess
    work = os.path.join(build_dir(), "work-C14-units-%d" % os.getpid())
    os.makedirs(work, exist_ok=True)
    for name, text in (("store.cpp", C14_STORE_CPP), ("check.cpp", C14_CHECK_CPP), ("main.cpp", C14_MAIN_CPP)):
        with open(os.path.join(work, name), "w") as fh:
            fh.write(text)
    cells = 0
    for comp in ("g++", "clang++"):
        objs = {}
        failed = False
        for src, defs in (("store", []), ("check", []), ("main", []), ("main_startup", ["-DWRITE_AT_STARTUP"])):
            o = os.path.join(work, "%s_%s.o" % (src, comp.replace("+", "p")))
            cmd = [comp, "-std=c++14", "-O1", "-I", INCLUDE] + defs + ["-c", os.path.join(work, src.split("_")[0] + ".cpp"), "-o", o]
            p = subprocess.run(cmd, stdout=subprocess.PIPE, stderr=subprocess.STDOUT, text=True)
            if p.returncode != 0:
                outcome.add_violation("C14:units:compile", "a client translation unit of the binary/text writers does not compile with %s:\n%s" % (comp, p.stdout[-1500:]), {"command": " ".join(cmd)})
                failed = True
                break
            objs[src] = o
        if failed:
            continue
        for when in ("main", "main_startup"):
            for order in (("first", [objs[when], objs["store"], objs["check"]]), ("last", [objs["store"], objs["check"], objs[when]])):
                cells += 1
                exe = os.path.join(work, "prog_%s_%s_%s" % (comp.replace("+", "p"), when, order[0]))
                d = exe + ".d"
                os.makedirs(d, exist_ok=True)
                p = subprocess.run([comp] + order[1] + ["-o", exe], stdout=subprocess.PIPE, stderr=subprocess.STDOUT, text=True)
                if p.returncode == 0:
                    env = dict(os.environ)
                    env["C14_DIR"] = d
                    p = subprocess.run([exe], stdout=subprocess.PIPE, stderr=subprocess.STDOUT, text=True, env=env, timeout=120)
                if p.returncode != 0:
                    what = "from the constructor of a namespace-scope object (before main)" if when == "main_startup" else "from main"
                    outcome.add_violation("C14:units:%s:%s" % (when, order[0]),
                                          "files written %s, the calling translation unit linked %s, %s: %s" % (what, order[0], comp, p.stdout[-800:]),
                                          {"command": "echo 'sources: lib/plans.py C14_STORE_CPP / C14_CHECK_CPP / C14_MAIN_CPP; re-run bin/check C14 --tier quick'; false"})
    shutil.rmtree(work, ignore_errors=True)
    return cells


def run_io(prop, tier, deadline):
    import shutil
    outcome = Outcome(prop, tier, "fault_enumeration" if prop == "C15" else "exploration")
    plan = IO_PLANS[prop][tier]
    san = prop == "C15"
    builds = {g: io_build(g, san) for g in set(IO_GROUPS[c] for c, _ in plan)}
    built = build_all(list(builds.values()))
    if compile_failures(outcome, built):
        outcome.coverage = {"evaluations": 1, "distinct_nontrivial": 0, "rule": "harness did not compile", "samples": ["compile failure"]}
        return outcome
    workdir = os.path.join(build_dir(), "work-%s-%s-%d" % (prop, tier, os.getpid()))
    jobs = []
    for k, (cfg, args) in enumerate(plan):
        tmpd = os.path.join(workdir, "t%d" % k)
        os.makedirs(tmpd, exist_ok=True)
        jobs.append(Job(builds[IO_GROUPS[cfg]], ["--prop", prop, "--tier", tier, "--tmpdir", tmpd] + args, label=" ".join(args), timeout=deadline + 300, deadline=deadline, env=SAN_ENV if san else {}))
    run_jobs(jobs, built, workdir)
    results = collect(outcome, jobs, built)
    shutil.rmtree(workdir, ignore_errors=True)
    per = {r.get("config", "?"): r.get("counters", {}).get("cases", 0) for r in results}
    unit_cells = c14_when_and_where(outcome) if prop == "C14" else 0
    if unit_cells:
        per["writers called from main / before main x link order x compiler"] = unit_cells
    outcome.coverage = {
        "evaluations": sum_counter(results, "cases") + unit_cells,
        "distinct_nontrivial": sum_counter(results, "nontrivial_cases"),
        "rule": IO_RULE[prop],
        "samples": gather_samples(results, 6),
        "cases_per_configuration": per,
    }
    if san:
        outcome.coverage["sanitizers"] = "clang++ -fsanitize=address,undefined -fno-sanitize-recover=undefined -ftrivial-auto-var-init=pattern; every worker is a separate process with abort_on_error and max_allocation_size_mb=1024"
    outcome.assumptions = ["files are written under the check's build directory", "bounded scope as listed", "little-endian host: the big-endian branch of the binary codec cannot be executed here"]
    return outcome


# ------------------------------------------------------------------------------------------- C17
DEBUG_DEFS = ["-D_GLIBCXX_DEBUG", "-D_GLIBCXX_DEBUG_PEDANTIC", "-D_GLIBCXX_ASSERTIONS"]
C17_CELLS = {
    # name: (compiler, flags, env, kind)
    "gxx-O2-plain": ("g++", ["-O2"], {}, "plain"),
    "gxx-O1-debugmode": ("g++", ["-O1"] + DEBUG_DEFS, {}, "debug"),
    "clang-O1-asan-ubsan": ("clang++", SAN_FLAGS, SAN_ENV, "san"),
    "gxx-O0-plain": ("g++", ["-O0"], {}, "plain"),
    "clang-O2-plain": ("clang++", ["-O2"], {}, "plain"),
    "clang-O0-debugmode": ("clang++", ["-O0"] + DEBUG_DEFS, {}, "debug"),
    "gxx-O2-asan-ubsan": ("g++", ["-O2", "-fsanitize=address,undefined", "-fno-sanitize-recover=undefined", "-fno-omit-frame-pointer"], SAN_ENV, "san"),
    "clang-O1-autoinit-pattern": ("clang++", ["-O1", "-ftrivial-auto-var-init=pattern"], {}, "plain"),
    "gxx-O1-plain": ("g++", ["-O1"], {}, "plain"),
    "clang-O1-debugmode-asan": ("clang++", SAN_FLAGS + DEBUG_DEFS, SAN_ENV, "san"),
}
C17_SOURCES = {"e1": ("harness/e1_props.cpp", E1_GROUPS), "shapes": ("harness/shapes.cpp", SHAPES_GROUPS), "paths": ("harness/paths.cpp", PATHS_GROUPS), "io": ("harness/io.cpp", IO_GROUPS)}


def c17_build(cell, harness, group):
    comp, flags, _, _ = C17_CELLS[cell]
    if cell == "gxx-O2-plain":   # identical to the builds of the other checks: shared through the cache
        return {"e1": e1_build, "shapes": shapes_build, "paths": paths_build, "io": io_build}[harness](group)
    return Build("c17_%s_%s_g%d" % (cell, harness, group), C17_SOURCES[harness][0], compiler=comp, flags=flags + ["-DGROUP=%d" % group])


def c17_jobs(tier):
    """(harness, config-for-group, label, args, needs_tmpdir)"""
    jobs = []
    e1cfgs = ["dir_NoLabel", "und_NoLabel", "dir_int", "und_int", "dmulti", "umulti", "dweighted", "uweighted"]
    if tier == "thorough":
        e1cfgs += ["dir_string", "und_string", "dir_struct", "und_struct", "dir_double", "und_char"]
    for c in e1cfgs:
        jobs.append(("e1", c, "histories(no force) %s" % c, ["--prop", "C17", "--config", c, "--variant", "n2"], False))
    for c in ["und_NoLabel", "dir_int", "umulti", "dmulti", "uweighted", "dweighted"]:
        jobs.append(("e1", c, "histories(force) %s" % c, ["--prop", "C17F", "--config", c, "--variant", "n2"], False))
    if tier == "thorough":
        for c in ["dir_NoLabel", "und_NoLabel"]:
            jobs.append(("e1", c, "histories n3 %s" % c, ["--prop", "C17", "--config", c, "--variant", "n3"], False))
    for c in ["dir_int", "und_int"] + (["dir_NoLabel", "und_NoLabel", "dir_string", "und_string", "dmulti", "umulti", "dweighted", "uweighted"] if tier == "thorough" else []):
        jobs.append(("shapes", c, "iteration %s" % c, ["--prop", "C08", "--config", c, "--variant", "n2"], True))
        if c.startswith(("dir_", "und_")):
            jobs.append(("shapes", c, "conversions %s" % c, ["--prop", "C09", "--config", c, "--variant", "n2"], True))
            jobs.append(("shapes", c, "subgraphs %s" % c, ["--prop", "C10", "--config", c, "--variant", "n2"], True))
        jobs.append(("shapes", c, "constructors %s" % c, ["--prop", "C09", "--config", c, "--variant", "ctor", "--len", "2"], True))
    jobs.append(("shapes", "und_NoLabel", "huge star traversal und", ["--prop", "C08", "--config", "und_NoLabel", "--variant", "huge", "--spokes", "300000"], True))
    jobs.append(("shapes", "dir_NoLabel", "huge star traversal dir", ["--prop", "C08", "--config", "dir_NoLabel", "--variant", "huge", "--spokes", "300000"], True))
    jobs.append(("paths", "dir", "bfs dir e1n3", ["--prop", "C11", "--config", "dir", "--source", "e1", "--n", "3"], False))
    jobs.append(("paths", "und", "bfs und e1n3", ["--prop", "C11", "--config", "und", "--source", "e1", "--n", "3"], False))
    jobs.append(("paths", "dir", "bfs dir layered", ["--prop", "C11", "--config", "dir", "--source", "layered", "--maxv", "9"], False))
    jobs.append(("paths", "dw", "dijkstra dw e2n3", ["--prop", "C12", "--config", "dw", "--source", "e2", "--n", "3", "--weights", "0,1,3"], False))
    jobs.append(("paths", "uw", "dijkstra uw perm4", ["--prop", "C12", "--config", "uw", "--source", "perm", "--n", "4", "--edges", "5", "--weights", "1,3,8"], False))
    jobs.append(("paths", "dw", "dijkstra dw perm4", ["--prop", "C12", "--config", "dw", "--source", "perm", "--n", "4", "--edges", "4", "--weights", "1,8"], False))
    if tier == "thorough":
        jobs.append(("paths", "dw", "dijkstra dw 5-edge graphs on 5 vertices", ["--prop", "C12", "--config", "dw", "--source", "subsets", "--n", "5", "--edges", "5", "--weights", "1,3,8", "--stride", "5"], False))
        jobs.append(("paths", "uw", "dijkstra uw K4 all orders", ["--prop", "C12", "--config", "uw", "--source", "perm", "--n", "4", "--edges", "6", "--weights", "1,3,8"], False))
    jobs.append(("paths", "dw", "dijkstra dw ladder", ["--prop", "C12", "--config", "dw", "--source", "ladder", "--maxl", "12"], False))
    jobs.append(("paths", "dir", "bfs dir long chains", ["--prop", "C11", "--config", "dir", "--source", "chains", "--maxn", "129"], False))
    jobs.append(("paths", "und", "bfs und long chains", ["--prop", "C11", "--config", "und", "--source", "chains", "--maxn", "70"], False))
    jobs.append(("paths", "dw", "dijkstra dw long chains", ["--prop", "C12", "--config", "dw", "--source", "chains", "--maxn", "129"], False))
    jobs.append(("paths", "dw", "dijkstra dw 5 vertices", ["--prop", "C12", "--config", "dw", "--source", "subsets", "--n", "5", "--edges", "5", "--weights", "1,3,8", "--stride", "41" if tier == "quick" else "3"], False))
    if tier == "thorough":
        jobs.append(("paths", "dir", "bfs dir e2n4", ["--prop", "C11", "--config", "dir", "--source", "e2", "--n", "4"], False))
        jobs.append(("paths", "und", "bfs und e2n5", ["--prop", "C11", "--config", "und", "--source", "e2", "--n", "5"], False))
        jobs.append(("paths", "uw", "dijkstra uw e2n4", ["--prop", "C12", "--config", "uw", "--source", "e2", "--n", "4", "--weights", "0,1"], False))
    for c, pr in [("dir_int", "C13"), ("und_NoLabel", "C13"), ("und_int", "C14"), ("dir_i64", "C14")] + ([("dir_string", "C13"), ("und_double", "C13"), ("dir_u8", "C14"), ("dir_float", "C14"), ("und_u64", "C14")] if tier == "thorough" else []):
        jobs.append(("io", c, "file round trip %s %s" % (pr, c), ["--prop", pr, "--part", "roundtrip", "--config", c, "--len", "2"], True))
    return jobs


def run_c17(tier, deadline):
    import shutil
    outcome = Outcome("C17", tier, "exploration")
    cells = ["gxx-O2-plain", "gxx-O1-debugmode", "clang-O1-asan-ubsan"] if tier == "quick" else list(C17_CELLS.keys())
    jl = c17_jobs(tier)
    builds = {}
    for cell in cells:
        for (harness, cfg, label, args, tmp) in jl:
            g = C17_SOURCES[harness][1][cfg]
            builds[(cell, harness, g)] = c17_build(cell, harness, g)
    built = build_all(list(builds.values()))
    if compile_failures(outcome, built):
        outcome.coverage = {"evaluations": 1, "distinct_nontrivial": 0, "rule": "harness did not compile", "samples": ["compile failure"]}
        return outcome
    workdir = os.path.join(build_dir(), "work-C17-%s-%d" % (tier, os.getpid()))
    jobs = []
    k = 0
    for cell in cells:
        comp, flags, env, kind = C17_CELLS[cell]
        for (harness, cfg, label, args, tmp) in jl:
            a = list(args) + ["--tier", "quick"]
            if tmp:
                tmpd = os.path.join(workdir, "t%d" % k)
                os.makedirs(tmpd, exist_ok=True)
                a += ["--tmpdir", tmpd]
            k += 1
            j = Job(builds[(cell, harness, C17_SOURCES[harness][1][cfg])], a, label="%s | %s" % (cell, label), timeout=deadline + 300, deadline=deadline, env=env)
            j.cell, j.joblabel = cell, label
            jobs.append(j)
    # valgrind memcheck (uninitialised-value use) on the smallest bound, plain -O0 -g build
    vg = None
    if tier == "thorough" and shutil.which("valgrind"):
        vb = Build("c17_valgrind_e1_g1", "harness/e1_props.cpp", compiler="g++", flags=["-O0", "-g", "-DGROUP=1"])
        built.update(build_all([vb]))
        vg = vb
    run_jobs(jobs, built, workdir)
    results = collect(outcome, jobs, built)   # crashes / sanitizer aborts / debug-mode aborts / hangs become violations here
    # the harnesses' own clause failures are the business of C01-C16, unless they differ between cells
    outcome.violations = [v for v in outcome.violations if ":crash:" in v["signature"] or ":hang:" in v["signature"]]
    by_label = {}
    for j in jobs:
        # a run stopped by its deadline observed a prefix only: its digest is not comparable
        if j.result is not None and not any("deadline" in c for c in j.result.get("caps_hit", [])):
            by_label.setdefault(j.joblabel, {})[j.cell] = (j.result.get("digest"), j.result.get("violation_count", 0), j)
    mismatches = 0
    for label, per in sorted(by_label.items()):
        ref_cell = "gxx-O2-plain" if "gxx-O2-plain" in per else sorted(per)[0]
        ref = per[ref_cell]
        for cell, (dg, vc, j) in sorted(per.items()):
            if dg != ref[0] or vc != ref[1]:
                mismatches += 1
                outcome.add_violation("C17:config-dependent-result:%s" % label, "job `%s`: observation digest %s / %d clause failures under %s, but %s / %d under %s: results depend on the build configuration" % (
                    label, dg, vc, cell, ref[0], ref[1], ref_cell), {"build": j.build.name, "args": j.args, "env": j.env})
    vg_note = "not run at this tier"
    if vg is not None:
        ok, path, _ = built[vg.name]
        import subprocess
        cmd = ["valgrind", "--error-exitcode=99", "--quiet", "--track-origins=no", path, "--prop", "C06", "--config", "dir_int", "--variant", "n1", "--tier", "quick"]
        p = subprocess.run(cmd, stdout=subprocess.PIPE, stderr=subprocess.STDOUT, text=True, timeout=3000)
        vg_note = "valgrind memcheck on e1 dir_int n1: exit %d" % p.returncode
        if p.returncode == 99:
            outcome.add_violation("C17:valgrind", "valgrind memcheck reports an error on valid use:\n" + p.stdout[-2500:], {"command": " ".join(cmd)})
    shutil.rmtree(workdir, ignore_errors=True)
    outcome.coverage = {
        "evaluations": len(jobs),
        "distinct_nontrivial": sum(1 for j in jobs if j.result is not None and j.cell != "gxx-O2-plain"),
        "rule": "case = (valid-use exploration job, build configuration). Jobs are the bounded exhaustive explorations of C01-C16 restricted to valid use (histories with and without force on all classes, iteration, conversions, "
                "subgraphs, constructors, BFS and Dijkstra enumerations, text/binary round trips); every job is run in every configuration cell. Oracle per cell: no sanitizer report, no libstdc++ debug-mode / assertion abort, "
                "no crash or hang; and the digest of all observations plus the clause-failure count is identical in all cells. Non-trivial = instrumented or differently optimised cells (everything but the reference cell).",
        "samples": [{"cells": cells}, {"jobs": sorted(by_label.keys())[:12]}, {"example": "job `dijkstra uw perm4` in cell gxx-O1-debugmode: every 5-edge subgraph of K4 in all insertion orders x weights {1,3,8}, std::pop_heap/make_heap preconditions checked by libstdc++ debug mode"}],
        "cells": {c: {"compiler": C17_CELLS[c][0], "flags": C17_CELLS[c][1]} for c in cells},
        "jobs_per_cell": len(jl),
        "inner_cases": sum(int(r.get("counters", {}).get("cases", 0)) + int(r.get("counters", {}).get("transitions", 0)) for r in results),
        "digest_mismatches": mismatches,
        "valgrind": vg_note,
    }
    outcome.assumptions = ["MemorySanitizer is not used (no instrumented libstdc++ in this image); uninitialised reads are covered by -ftrivial-auto-var-init=pattern digests and valgrind at the thorough tier",
                           "undefined behaviour that neither trips a sanitizer / debug-mode check nor changes any observation in any cell is not detected"]
    return outcome


# ------------------------------------------------------------------------------------------- C18
C18_GROUPS = {"dir_NoLabel": 0, "und_NoLabel": 1, "dir_int": 2, "und_string": 3, "dmulti": 4, "umulti": 5, "dweighted": 6, "uweighted": 7}
TSAN_ENV = {"TSAN_OPTIONS": "exitcode=66:halt_on_error=1:report_signal_unsafe=0"}


def c18_build(group, compiler="g++"):
    flags = ["-O1", "-g", "-fsanitize=thread"]
    if compiler == "g++":   # function-entry switch points, only for functions defined in BaseGraph headers
        flags += ["-finstrument-functions", "-finstrument-functions-exclude-file-list=/usr/include,/usr/lib,/verif/"]
    return Build("c18_%s_g%d" % ("gxx" if compiler == "g++" else "clang", group), "harness/c18.cpp", compiler=compiler, flags=flags + ["-DGROUP=%d" % group],
                 libs=["-lpthread", "-ldl"], plain_c_objects=["mc/sched/sched.c"])


def run_c18(tier, deadline):
    import shutil
    import subprocess
    outcome = Outcome("C18", tier, "model_checking")
    classes = list(C18_GROUPS.keys())
    builds = {(c, "g++"): c18_build(C18_GROUPS[c]) for c in classes}
    clang_classes = ["dir_int", "uweighted"] if tier == "quick" else classes
    for c in clang_classes:
        builds[(c, "clang++")] = c18_build(C18_GROUPS[c], "clang++")
    built = build_all(list(builds.values()))
    if compile_failures(outcome, built):
        outcome.coverage = {"states": 0, "transitions": 0, "traces_validated_against_impl": 0, "samples": ["harness did not compile"], "evaluations": 1, "distinct_nontrivial": 0}
        return outcome
    workdir = os.path.join(build_dir(), "work-C18-%s-%d" % (tier, os.getpid()))
    os.makedirs(workdir, exist_ok=True)
    # canary: the serialising scheduler must not blind ThreadSanitizer
    for comp in ("g++", "clang++"):
        ok, path, _ = built[builds[("dir_int", comp)].name]
        env = dict(os.environ)
        env.update(TSAN_ENV)
        p = subprocess.run([path, "--config", "canary"], stdout=subprocess.PIPE, stderr=subprocess.STDOUT, text=True, env=env, timeout=120)
        if p.returncode != 66 or "data race" not in p.stdout:
            print("INFRASTRUCTURE ERROR: canary race under the scheduler was NOT reported by ThreadSanitizer (%s build, exit %d); the harness would be blind\n%s" % (comp, p.returncode, p.stdout[-1500:]))
            os._exit(2)
    jobs = []
    k = 0

    def add(c, comp, mode, bound, threads, core, dl=None, seq=False):
        nonlocal k
        tmpd = os.path.join(workdir, "t%d" % k)
        k += 1
        os.makedirs(tmpd, exist_ok=True)
        args = ["--config", c, "--mode", mode, "--bound", str(bound), "--threads", str(threads), "--tmpdir", tmpd, "--tier", tier] + (["--core"] if core else []) + (["--seq"] if seq else [])
        if tier == "quick" and (mode == "fine" or seq):
            if mode == "fine":
                args += ["--smallcore"]     # quick tier: ten operations instead of fifteen at function-entry granularity
            args += ["--shapes", "0,3"]     # quick tier: the shape with isolated low vertices and the one with a long mutation history
        j = Job(builds[(c, comp)], args, label="%s %s %s k=%d P<=%d%s%s" % (comp, c, mode, threads, bound, " core" if core else "", " two-call sequences" if seq else ""), timeout=(dl or deadline) + 300, deadline=dl or deadline, env=TSAN_ENV)
        jobs.append(j)

    for c in (["dir_int", "und_string", "dweighted"] if tier == "quick" else classes):
        add(c, "g++", "coarse", 2, 2, False, seq=True)   # each thread makes two const calls in a row

    for c in classes:
        add(c, "g++", "coarse", 2, 2, False)     # all pairs, synchronisation-level switch points (thread start/end, locks)
        add(c, "g++", "free", 0, 4 if tier == "thorough" else 3, True)   # free-running pass, no scheduler
    for c in clang_classes:
        add(c, "clang++", "free", 0, 2, False)
        add(c, "clang++", "coarse", 2, 2, False)
    for c in (["dir_int", "uweighted"] if tier == "quick" else classes):
        add(c, "g++", "coarse", 2, 3, True)      # all triples of the core
    fine1 = ["dir_int", "und_string", "dweighted"] if tier == "quick" else classes
    for c in fine1:
        add(c, "g++", "fine", 1, 2, True)        # function-entry switch points, one preemption
    if tier == "thorough":
        for c in ["dir_int", "und_string", "uweighted", "dmulti"]:
            add(c, "g++", "fine", 2, 2, True, dl=1500)   # two preemptions; bounded by a deadline (reported as a cap if hit)
    run_jobs(jobs, built, workdir)
    # a deadlock of the code under test ends the worker with exit code 98
    for j in jobs:
        if j.returncode == 98:
            tuples = [l for l in j.output.splitlines() if l.startswith("TUPLE ")]
            outcome.add_violation("C18:deadlock", "threads that only call const operations on one shared graph deadlocked (every unfinished thread waits for a lock held by another), job `%s`, while exploring %s" % (
                j.label, tuples[-1] if tuples else "?"), {"build": j.build.name, "args": j.args, "env": j.env})
            j.status = "ok-race"
            j.returncode = 0
    # a ThreadSanitizer report ends the worker with exit code 66
    for j in jobs:
        if j.returncode == 66:
            summary = [l for l in j.output.splitlines() if "SUMMARY: ThreadSanitizer" in l or "WARNING: ThreadSanitizer" in l]
            tuples = [l for l in j.output.splitlines() if l.startswith("TUPLE ")]
            where = summary[-1] if summary else "data race"
            func = where.split(" in ")[-1][:80] if " in " in where else "unknown"
            outcome.add_violation("C18:data-race:%s" % func, "ThreadSanitizer reported a data race between threads that only call const operations on one shared graph, job `%s`, while exploring %s\n%s\n%s" % (
                j.label, tuples[-1] if tuples else "?", "\n".join(summary[:3]), j.output[-2500:]), {"build": j.build.name, "args": j.args, "env": j.env})
            j.status = "ok-race"
            j.returncode = 0
    results = collect(outcome, [j for j in jobs if j.status != "ok-race"], built)
    shutil.rmtree(workdir, ignore_errors=True)
    per = {}
    for r in results:
        per[r.get("config", "?")] = {kk: r.get("counters", {}).get(kk, 0) for kk in ("op_tuples", "executions", "switch_points", "max_points_in_one_execution", "distinct_outcomes", "operations")}
        per[r.get("config", "?")]["wall_s"] = r.get("wall_s")
    execs = sum_counter(results, "executions")
    outcome.coverage = {
        "states": execs,
        "transitions": sum_counter(results, "switch_points"),
        "traces_validated_against_impl": execs,
        "samples": gather_samples(results, 4) + [{"schedule_example": "two threads, function-entry switch points, prefix [0,0,1] = thread 0 runs two points, then thread 1 is switched in (one preemption), then the default policy finishes"}],
        "explanation": "states = executions = distinct (operation tuple, schedule) pairs run on the real code under the controlled scheduler (every one is an implementation trace: there is no separate model); "
                       "transitions = switch points taken. Iterative context bounding: all schedules with at most P preemptions of every unordered pair (and triple of the core) of const operations on a freshly built shared graph "
                       "of three shapes, for all eight classes; coarse = switch points at thread start/end and lock operations, fine = additionally at the entry of every function defined in a BaseGraph header; plus a free-running "
                       "pass. Everything runs under ThreadSanitizer with the scheduler's hand-offs invisible to it (canary verified at the start of every run).",
        "op_tuples": sum_counter(results, "op_tuples"),
        "distinct_outcomes": sum_counter(results, "distinct_outcomes"),
        "configurations": per,
        "canary": "a deliberate race under the scheduler was reported by TSan in the g++ and clang++ builds",
    }
    outcome.assumptions = ["switches happen at function entry, not at every memory access; below that granularity completeness rests on ThreadSanitizer seeing no conflicting access in any explored execution (DESIGN.md C18)",
                           "sequentially consistent interleavings only", "the const alphabet in harness/c18.cpp (about 25-30 operations per class)"]
    return outcome


import c20  # noqa: E402

PLANS = {}
PLANS["C20"] = c20.run_c20
PLANS["C17"] = run_c17
PLANS["C18"] = run_c18
for _p in IO_PLANS:
    PLANS[_p] = (lambda prop: (lambda tier, deadline: run_io(prop, tier, deadline)))(_p)
for _p in PATHS_PLANS:
    PLANS[_p] = (lambda prop: (lambda tier, deadline: run_paths(prop, tier, deadline)))(_p)
for _p in SHAPES_PLANS:
    PLANS[_p] = (lambda prop: (lambda tier, deadline: run_shapes(prop, tier, deadline)))(_p)
PLANS["C07"] = run_c07
for _p in E1_PLANS:
    PLANS[_p] = (lambda prop: (lambda tier, deadline: run_e1(prop, tier, deadline)))(_p)


def c17_setup_builds():
    out = []
    for cell in ("gxx-O1-debugmode", "clang-O1-asan-ubsan"):
        for (harness, cfg, label, args, tmp) in c17_jobs("quick"):
            out.append(c17_build(cell, harness, C17_SOURCES[harness][1][cfg]))
    return out


def all_builds():
    bs = [e1_build(g) for g in range(8)] + [c07_build(g) for g in range(10)] + [shapes_build(g) for g in range(9)] + [shapes_build(0, "-O0"), shapes_build(1, "-O0")] + [paths_build(g) for g in range(4)] + [io_build(g) for g in range(4)] + [io_build(g, True) for g in range(4)] + c17_setup_builds() + [c18_build(g) for g in range(8)] + [c18_build(2, "clang++"), c18_build(7, "clang++")]
    return bs


def find_build(name):
    for b in all_builds():
        if b.name == name:
            return b
    raise SystemExit("unknown build " + name)
