"""Infrastructure of the /verif checks: content-addressed builds of the harnesses against /repo's
working tree, parallel job execution, evidence files, replay files, known findings.

Nothing here decides a property; the deciding step is always the exhaustive enumeration inside a
harness binary (see DESIGN.md)."""
import concurrent.futures
import fcntl
import hashlib
import json
import os
import shlex
import shutil
import subprocess
import sys
import time

VERIF = os.path.dirname(os.path.dirname(os.path.abspath(__file__)))
REPO = os.environ.get("VERIF_REPO", "/repo")
INCLUDE = os.path.join(REPO, "include")
BUILD_ROOT = os.path.join(VERIF, "build")
EVIDENCE_DIR = os.environ.get("VERIF_EVIDENCE_DIR", os.path.join(VERIF, "evidence"))
REPLAY_DIR = os.environ.get("VERIF_REPLAY_DIR", os.path.join(VERIF, "replays"))
KNOWN_FINDINGS = os.environ.get("VERIF_KNOWN_FINDINGS", os.path.join(VERIF, "known_findings.txt"))
NCPU = os.cpu_count() or 4


def log(msg):
    print(msg, flush=True)


# ----------------------------------------------------------------------------------------- hashing
def _hash_tree(root, exts=None):
    h = hashlib.sha256()
    for d, dirs, files in sorted(os.walk(root)):
        dirs.sort()
        for f in sorted(files):
            if exts and not f.endswith(exts):
                continue
            p = os.path.join(d, f)
            h.update(os.path.relpath(p, root).encode())
            with open(p, "rb") as fh:
                h.update(fh.read())
    return h.hexdigest()


_repo_hash = None


def repo_hash():
    """Hash of every file under /repo/include (the whole library: it is header-only)."""
    global _repo_hash
    if _repo_hash is None:
        _repo_hash = _hash_tree(INCLUDE)[:16]
    return _repo_hash


_verif_hash = None


def verif_src_hash():
    global _verif_hash
    if _verif_hash is None:
        h = hashlib.sha256()
        for sub in ("mc", "harness"):
            h.update(_hash_tree(os.path.join(VERIF, sub)).encode())
        _verif_hash = h.hexdigest()[:16]
    return _verif_hash


def build_dir():
    d = os.path.join(BUILD_ROOT, repo_hash())
    os.makedirs(d, exist_ok=True)
    try:
        os.utime(d, None)
    except OSError:
        pass
    return d


def prune_builds(keep=6):
    """Remove build directories of older /repo trees (least recently used first)."""
    if not os.path.isdir(BUILD_ROOT):
        return
    cur = repo_hash()
    ds = []
    for d in os.listdir(BUILD_ROOT):
        p = os.path.join(BUILD_ROOT, d)
        if os.path.isdir(p) and d != cur and d != "tmp" and len(d) == 16:
            ds.append((os.path.getmtime(p), p))
    ds.sort(reverse=True)
    now = time.time()
    for mt, p in ds[keep - 1:]:
        if now - mt > 2 * 3600:     # never a directory that another check may still be using
            shutil.rmtree(p, ignore_errors=True)


# ------------------------------------------------------------------------------------------ builds
class Build:
    """One harness binary: compiler + flags + sources (relative to /verif)."""

    def __init__(self, name, sources, compiler="g++", flags=None, libs=None, std="c++17", plain_c_objects=None):
        self.name = name
        self.sources = sources if isinstance(sources, list) else [sources]
        self.compiler = compiler
        self.flags = flags if flags is not None else ["-O1"]
        self.libs = libs or []
        self.std = std
        # C sources compiled separately with plain `gcc -O1` (NO sanitizer / instrumentation flags) and linked in
        self.plain_c_objects = plain_c_objects or []

    def key(self):
        h = hashlib.sha256()
        h.update(repr((self.name, self.sources, self.compiler, self.flags, self.libs, self.std, self.plain_c_objects, verif_src_hash())).encode())
        return h.hexdigest()[:12]

    def path(self):
        return os.path.join(build_dir(), "%s-%s" % (self.name, self.key()))

    def command(self, out):
        return ([self.compiler, "-std=" + self.std] + self.flags + ["-I", INCLUDE, "-I", VERIF] +
                [os.path.join(VERIF, s) for s in self.sources] + ["-o", out] + self.libs)

    def build(self):
        """Returns (ok, path, log). Safe against concurrent invocations (flock on the target)."""
        out = self.path()
        lock = out + ".lock"
        with open(lock, "w") as lf:
            fcntl.flock(lf, fcntl.LOCK_EX)
            if os.path.exists(out):
                os.utime(out, None)
                return True, out, ""
            tmp = out + ".tmp%d" % os.getpid()
            cmd = self.command(tmp)
            t0 = time.time()
            for k, csrc in enumerate(self.plain_c_objects):
                obj = out + ".c%d.o" % k
                pc = subprocess.run(["gcc", "-O1", "-c", os.path.join(VERIF, csrc), "-o", obj], stdout=subprocess.PIPE, stderr=subprocess.STDOUT, text=True)
                if pc.returncode != 0:
                    print("INFRASTRUCTURE ERROR: cannot compile %s:\n%s" % (csrc, pc.stdout[-2000:]))
                    os._exit(2)
                cmd.insert(cmd.index("-o"), obj)
            p = subprocess.run(cmd, stdout=subprocess.PIPE, stderr=subprocess.STDOUT, text=True)
            if p.returncode != 0:
                if os.path.exists(tmp):
                    os.remove(tmp)
                text = "$ %s\n%s" % (" ".join(shlex.quote(c) for c in cmd), p.stdout[-6000:])
                # a compiler that was killed or ran out of resources says nothing about the library
                if p.returncode < 0 or "internal compiler error" in p.stdout or "Killed signal" in p.stdout or "out of memory" in p.stdout or "No space left" in p.stdout or ": error:" not in p.stdout and "error:" not in p.stdout:
                    print("INFRASTRUCTURE ERROR: compiler failed without a diagnostic about the code (exit %s)\n%s" % (p.returncode, text[-3000:]))
                    os._exit(2)
                return False, out, text
            os.rename(tmp, out)
            log("  built %s in %.1fs" % (self.name, time.time() - t0))
            return True, out, ""


def build_all(builds):
    """Compile in parallel; returns {name: (ok, path, log)}."""
    uniq = {}
    for b in builds:
        uniq[b.name + b.key()] = b
    res = {}
    with concurrent.futures.ThreadPoolExecutor(max_workers=NCPU) as ex:
        futs = {ex.submit(b.build): b for b in uniq.values()}
        for f in concurrent.futures.as_completed(futs):
            b = futs[f]
            res[b.name] = f.result()
    return res


# -------------------------------------------------------------------------------------------- jobs
class Job:
    """One worker process: a built harness + arguments. The harness writes its result JSON to --out."""

    def __init__(self, build, args, label=None, timeout=900, weight=1, env=None, deadline=None):
        self.build = build
        self.args = list(args)
        self.label = label or " ".join(args)
        self.timeout = timeout
        self.weight = weight
        self.env = env or {}
        self.deadline = deadline
        self.result = None      # parsed JSON
        self.status = None      # "ok" | "crash" | "timeout" | "hang" | "error"
        self.output = ""
        self.returncode = None
        self.wall = 0.0


def _run_job(job, binpath, outdir, idx):
    out = os.path.join(outdir, "job%d.json" % idx)
    if os.path.exists(out):
        os.remove(out)
    cmd = [binpath] + job.args + ["--out", out]
    if job.deadline:
        cmd += ["--deadline", str(int(job.deadline))]
    env = dict(os.environ)
    env.update(job.env)
    t0 = time.time()
    try:
        p = subprocess.run(cmd, stdout=subprocess.PIPE, stderr=subprocess.STDOUT, timeout=job.timeout, env=env, cwd=outdir)
        job.returncode = p.returncode
        job.output = p.stdout.decode("utf-8", "replace")[-60000:]
    except subprocess.TimeoutExpired as e:
        job.status = "timeout"
        job.output = (e.stdout or b"").decode("utf-8", "replace")[-8000:]
        job.wall = time.time() - t0
        return job
    job.wall = time.time() - t0
    if os.path.exists(out):
        try:
            with open(out) as fh:
                job.result = json.load(fh)
        except Exception as e:  # truncated output = the worker died while writing
            job.result = None
            job.output += "\n[unreadable result file: %s]" % e
    if job.returncode == 97:
        job.status = "hang"
    elif job.returncode == 2 and job.result is None:
        job.status = "error"
    elif job.returncode != 0 or job.result is None:
        job.status = "crash"
    else:
        job.status = "ok"
    return job


def run_jobs(jobs, built, workdir, max_parallel=None):
    os.makedirs(workdir, exist_ok=True)
    max_parallel = max_parallel or NCPU
    with concurrent.futures.ThreadPoolExecutor(max_workers=max_parallel) as ex:
        futs = []
        for i, j in enumerate(jobs):
            ok, path, _ = built[j.build.name]
            futs.append(ex.submit(_run_job, j, path, workdir, i))
        for f in futs:
            f.result()
    return jobs


# ---------------------------------------------------------------------------------- known findings
def load_known_findings():
    findings = []
    if os.path.exists(KNOWN_FINDINGS):
        for line in open(KNOWN_FINDINGS):
            line = line.strip()
            if line.startswith("finding:"):
                rest = line[len("finding:"):].strip()
                fields = dict(tok.split("=", 1) for tok in rest.split() if "=" in tok and tok.split("=", 1)[0] in ("property", "signature"))
                if "property" in fields and "signature" in fields:
                    findings.append((fields["property"], fields["signature"], rest))
    return findings


# ---------------------------------------------------------------------------------------- outcome
class Outcome:
    def __init__(self, prop, tier, level):
        self.prop = prop
        self.tier = tier
        self.level = level
        self.violations = []   # dicts: signature, detail, replay(dict)
        self.coverage = {}
        self.assumptions = []
        self.t0 = time.time()
        self.exhaustive = True
        self.caps = []
        self.notes = []

    def add_violation(self, signature, detail, replay):
        self.violations.append({"signature": signature, "detail": detail, "replay": replay})

    def cap(self, what):
        self.exhaustive = False
        if what not in self.caps:
            self.caps.append(what)


def write_evidence(outcome, n_unknown_violations):
    os.makedirs(EVIDENCE_DIR, exist_ok=True)
    cov = dict(outcome.coverage)
    cov["exhaustive"] = bool(outcome.exhaustive)
    cov["caps_hit"] = outcome.caps
    if outcome.notes:
        cov["notes"] = outcome.notes
    ev = {
        "property_id": outcome.prop,
        "tier": outcome.tier,
        "seed": int(os.environ.get("VERIF_SEED", "0") or 0),
        "level": outcome.level,
        "coverage": cov,
        "assumptions": outcome.assumptions,
        "wall_s": round(time.time() - outcome.t0, 2),
        "violations": n_unknown_violations,
        "repo_include_hash": repo_hash(),
    }
    path = os.path.join(EVIDENCE_DIR, outcome.prop + ".json")
    tmp = path + ".tmp%d" % os.getpid()
    with open(tmp, "w") as fh:
        json.dump(ev, fh, indent=1)
        fh.write("\n")
    os.rename(tmp, path)
    return path


def finish(outcome):
    """Write replay files, evidence, print VIOLATION / KNOWN-FINDING lines; returns the exit code."""
    known = load_known_findings()
    os.makedirs(REPLAY_DIR, exist_ok=True)
    unknown = 0
    printed_known = set()
    seen_sigs = {}
    outcome.violations.sort(key=lambda v: (len(v["detail"]), v["signature"]))
    for v in outcome.violations:
        sig = v["signature"]
        hit = [k for k in known if k[0] == outcome.prop and k[1] == sig]
        if hit:
            if sig not in printed_known:
                printed_known.add(sig)
                print("KNOWN-FINDING: %s" % hit[0][2])   # the entry starts with property=<id>
            continue
        n = seen_sigs.get(sig, 0)
        seen_sigs[sig] = n + 1
        if n >= 1 or unknown >= 12:      # one replay file per signature, at most 12 per run
            unknown += 1
            continue
        idx = 0
        while True:
            path = os.path.join(REPLAY_DIR, "%s-%d.json" % (outcome.prop, idx))
            if not os.path.exists(path):
                break
            idx += 1
        rec = {"property": outcome.prop, "signature": sig, "detail": v["detail"], "replay": v["replay"],
               "repo_include_hash": repo_hash(), "tier": outcome.tier}
        with open(path, "w") as fh:
            json.dump(rec, fh, indent=1)
            fh.write("\n")
        unknown += 1
        print("VIOLATION property=%s replay=%s" % (outcome.prop, path))
        print("  signature: %s" % sig)
        print("  detail: %s" % v["detail"][:1500])
    path = write_evidence(outcome, unknown)
    log("%s %s: %s; evidence %s; wall %.1fs; exhaustive=%s%s" % (
        outcome.prop, outcome.tier, "VIOLATED (%d)" % unknown if unknown else "held on everything explored",
        path, time.time() - outcome.t0, outcome.exhaustive, (" caps=" + "; ".join(outcome.caps)) if outcome.caps else ""))
    return 1 if unknown else 0


# ------------------------------------------------------------ generic handling of harness job results
def collect(outcome, jobs, built):
    """Fold worker results into the outcome: violations, caps, crashes. Returns list of ok results."""
    results = []
    for j in jobs:
        ok, path, blog = built[j.build.name]
        replay_base = {"build": j.build.name, "args": j.args, "env": j.env}
        if j.status == "ok" or (j.result is not None and j.status == "crash" and j.returncode == 0):
            pass
        if j.result is not None:
            r = j.result
            results.append(r)
            if not r.get("exhaustive", True):
                for c in r.get("caps_hit", []):
                    outcome.cap(c)
            for v in r.get("violations", []):
                rp = dict(replay_base)
                rp["replay_args"] = v.get("replay", "")
                outcome.add_violation(v["signature"], v["detail"] + ("  [%d occurrence(s)]" % v.get("occurrences", 1)), rp)
        if j.status == "crash":
            crumb = ""
            for line in j.output.splitlines():
                if "breadcrumb" in line or "ERROR: " in line or "runtime error" in line or "Error:" in line:
                    crumb += line.strip() + " | "
            outcome.add_violation("%s:crash:%s" % (outcome.prop, j.label), "worker `%s` died (exit %s) while exploring: %s\n%s" % (
                j.label, j.returncode, crumb[:1200], j.output[-1500:]), replay_base)
        elif j.status == "hang":
            outcome.add_violation("%s:hang:%s" % (outcome.prop, j.label), "worker `%s` made no progress for two watchdog periods: %s" % (j.label, j.output[-800:]), replay_base)
        elif j.status == "timeout":
            outcome.cap("worker `%s` exceeded its wall-clock limit of %ds and was stopped (not counted as a violation)" % (j.label, j.timeout))
        elif j.status == "error":
            print("INFRASTRUCTURE ERROR in worker `%s`:\n%s" % (j.label, j.output[-2000:]))
            sys.exit(2)
    return results


def sum_counter(results, name):
    return sum(int(r.get("counters", {}).get(name, 0)) for r in results)


def gather_samples(results, limit=8):
    out = []
    # round-robin over workers so that every configuration is represented
    i = 0
    while len(out) < limit:
        added = False
        for r in results:
            s = r.get("samples", [])
            if i < len(s) and len(out) < limit:
                out.append(s[i])
                added = True
        if not added:
            break
        i += 1
    return out
