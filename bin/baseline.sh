#!/bin/bash
# Run the repository's own test suite (guard OFF; there are no source hooks) on a source tree.
# usage: baseline.sh [SRC_DIR=/repo] [BUILD_DIR=$SRC_DIR/_build]
# Prints "BASELINE passed=<n gtest cases + ctest programs> failed=<m>" and exits 0 iff nothing failed.
set -u
SRC=${1:-/repo}
BLD=${2:-$SRC/_build}
if [ ! -f "$BLD/build.ninja" ]; then
  cmake -G Ninja -S "$SRC" -B "$BLD" -DBUILD_TESTS=ON -DCMAKE_BUILD_TYPE=RelWithDebInfo \
        -DCMAKE_CXX_FLAGS=-Wno-error -DGTest_DIR=/root/miniconda/lib/cmake/GTest >/dev/null || { echo "BASELINE configure failed"; exit 2; }
fi
cmake --build "$BLD" 2>&1 | tail -n 25 | grep -E "error|FAILED|ninja: build stopped" && { echo "BASELINE build failed"; exit 2; }
JUNIT=$(mktemp -d)
ctest --test-dir "$BLD" -j8 --timeout 900 --output-junit "$JUNIT/ctest.xml" >"$JUNIT/ctest.log" 2>&1
rc=$?
passed=0; failed=0
for t in "$BLD"/tests/test_*; do
  [ -x "$t" ] || continue
  out=$("$t" --gtest_brief=0 2>&1)
  p=$(echo "$out" | grep -c '^\[       OK \]')
  f=$(echo "$out" | grep -c '^\[  FAILED  \].*(.* ms)$')
  passed=$((passed+p)); failed=$((failed+f))
done
ct_pass=$(grep -c 'Passed' "$JUNIT/ctest.log")
ct_fail=$(grep -Ec '\*\*\*Failed|\*\*\*Exception|\*\*\*Timeout|\*\*\*Not Run' "$JUNIT/ctest.log")
rm -rf "$JUNIT"
echo "BASELINE passed=$((passed+ct_pass)) failed=$((failed+ct_fail)) (gtest cases $passed ok / $failed failed; ctest programs $ct_pass ok / $ct_fail failed)"
[ $rc -eq 0 ] && [ $failed -eq 0 ] && [ $ct_fail -eq 0 ]
