#!/usr/bin/env python3
"""store-seeds.py <validation.jsonl> <out-root e.g. /tmp/mut2/out> <round tag e.g. r2>
Copies confirmed seeded changes (patch, demonstration, agent meta + my validation verdict) into /verif/seeded/."""
import json
import os
import shutil
import sys

val_file, root, tag = sys.argv[1:4]
n = 0
for line in open(val_file):
    if not line.startswith("{"):
        continue
    v = json.loads(line)
    if not v.get("confirmed"):
        print("not confirmed, skipped:", v["id"])
        continue
    prop, m = v["id"].split("-")
    mdir = m.replace(tag, "")
    src = os.path.join(root, prop, mdir)
    dst = os.path.join("/verif/seeded", v["id"])
    os.makedirs(dst, exist_ok=True)
    for f in os.listdir(src):
        p = os.path.join(src, f)
        if os.path.isfile(p) and os.path.getsize(p) < 300000 and not f.endswith((".o", ".out")) and f != "demo":
            shutil.copy(p, os.path.join(dst, f))
    try:
        agent = json.load(open(os.path.join(src, "meta.json")))
    except Exception as e:
        agent = {"error": str(e)}
    head = os.popen("git -C /repo rev-parse --short HEAD").read().strip()
    meta = {"id": v["id"], "breaks_property": prop, "summary": agent.get("summary"), "needs_to_manifest": agent.get("needs_to_manifest"),
            "produced_by": "independent sub-agent given only the property text and a scratch worktree of /repo (round %s: asked for changes that need larger sizes, longer histories, unusual values or rare entry points)" % tag,
            "confirmed_by_me": {"how": "bin/validate-seed.sh: fresh worktree of /repo HEAD under /tmp, git apply patch.diff, bin/baseline.sh (repository test suite), run.sh against the patched include dir and against /repo/include",
                                "repo_head_at_confirmation": head, "patch_applies": v["patch_applies"], "suite_with_change": v["suite"],
                                "demo_exit_with_change": v["demo_exit_with_change"], "demo_exit_without_change": v["demo_exit_without_change"], "confirmed": v["confirmed"]},
            "agent_meta": agent}
    json.dump(meta, open(os.path.join(dst, "meta.json"), "w"), indent=1)
    n += 1
print(n, "seeded changes stored")
