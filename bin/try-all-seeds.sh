#!/bin/bash
# usage: try-all-seeds.sh <tier> <glob of seed dirs under /verif/seeded, e.g. 'C*-r2m*'> [logfile]
# Runs, for every seeded change, the check of the property it breaks (scratch worktree; /repo untouched).
TIER=${1:-quick}; PAT=${2:-C*}; LOG=${3:-/tmp/seed-trial.log}
: > "$LOG"
for d in /verif/seeded/$PAT; do
  id=$(basename "$d"); prop=${id%%-*}
  echo "== $id" >> "$LOG"
  /verif/bin/try-patch.sh "$d/patch.diff" "$TIER" "$prop" 2>&1 | cut -c1-600 >> "$LOG"
done
echo ALLDONE >> "$LOG"
