#!/bin/bash
# usage: try-patch.sh <patch.diff> <tier> <prop> [<prop>...]
# Applies a patch to /repo's working tree, runs the given checks, and ALWAYS restores /repo afterwards.
# Prints one line per property: DETECTED / missed.
set -u
PATCH=$(readlink -f "$1"); TIER=$2; shift 2
cd /repo || exit 2
if ! git diff --quiet; then echo "/repo working tree is not clean"; exit 2; fi
trap 'git -C /repo checkout -- . ' EXIT
git apply "$PATCH" || { echo "patch does not apply: $PATCH"; exit 2; }
for P in "$@"; do
  out=$(/verif/bin/check "$P" --tier "$TIER" 2>&1); rc=$?
  nv=$(echo "$out" | grep -c '^VIOLATION')
  if [ $rc -eq 1 ] && [ "$nv" -gt 0 ]; then
     echo "DETECTED $P rc=$rc violations=$nv :: $(echo "$out" | grep -m1 'signature:' )"
     echo "$out" | grep -m1 -A0 'detail:' | cut -c1-400
  else
     echo "missed   $P rc=$rc :: $(echo "$out" | tail -1 | cut -c1-200)"
  fi
done
