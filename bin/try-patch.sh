#!/bin/bash
# usage: try-patch.sh <patch.diff> <tier> <prop> [<prop>...]
# Runs the given checks against a scratch worktree of /repo HEAD with the patch applied (the checks are
# pointed at it with VERIF_REPO; /repo itself is not touched). The worktree is removed afterwards.
# Prints one line per property: DETECTED / missed.
set -u
PATCH=$(readlink -f "$1"); TIER=$2; shift 2
WT=/tmp/trypatch/wt$$
mkdir -p /tmp/trypatch
git -C /repo worktree add -q --detach "$WT" HEAD || exit 2
trap 'git -C /repo worktree remove --force "$WT" >/dev/null 2>&1; rm -rf "$WT"' EXIT
git -C "$WT" apply "$PATCH" || { echo "patch does not apply: $PATCH"; exit 2; }
for P in "$@"; do
  out=$(VERIF_REPO="$WT" VERIF_EVIDENCE_DIR=/tmp/trypatch/ev$$ VERIF_REPLAY_DIR=/tmp/trypatch/rp$$ /verif/bin/check "$P" --tier "$TIER" 2>&1); rc=$?
  nv=$(echo "$out" | grep -c '^VIOLATION')
  if [ $rc -eq 1 ] && [ "$nv" -gt 0 ]; then
     echo "DETECTED $P rc=$rc violations=$nv :: $(echo "$out" | grep -m1 'signature:' )"
     echo "$out" | grep -m1 -A0 'detail:' | cut -c1-500
  else
     echo "missed   $P rc=$rc :: $(echo "$out" | tail -1 | cut -c1-200)"
  fi
done
rm -rf /tmp/trypatch/ev$$ /tmp/trypatch/rp$$
