#!/bin/bash
# usage: try-controls.sh <tier> <logfile> <patch>...
# Negative controls: behaviour-preserving changes. Every check must stay silent on each of them.
# PROPS="C11 C12" restricts the run to some checks (default: all twenty).
TIER=$1; LOG=$2; shift 2
PROPS=${PROPS:-C01 C02 C03 C04 C05 C06 C07 C08 C09 C10 C11 C12 C13 C14 C15 C16 C17 C18 C19 C20}
: > "$LOG"
for p in "$@"; do
  echo "== $p" >> "$LOG"
  /verif/bin/try-patch.sh "$p" "$TIER" $PROPS 2>&1 | grep -E "^DETECTED|detail|rc=2|does not apply" | cut -c1-700 >> "$LOG"
done
echo ALLDONE >> "$LOG"
