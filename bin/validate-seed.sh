#!/bin/bash
# usage: validate-seed.sh <mutant dir with patch.diff, run.sh, demo.cpp> <id>
# Confirms independently, in a scratch worktree of /repo HEAD under /tmp (removed afterwards):
#   (1) the patch applies, (2) the repository's own test suite still passes with it,
#   (3) the demonstration fails with the patch and (4) passes without it.
# Prints one JSON line with the verdicts.
set -u
D=$(readlink -f "$1"); ID=$2
WT=/tmp/seedval/$ID
mkdir -p /tmp/seedval
git -C /repo worktree add -q --detach "$WT" HEAD 2>/dev/null || { echo "{\"id\":\"$ID\",\"error\":\"worktree\"}"; exit 2; }
cleanup() { git -C /repo worktree remove --force "$WT" >/dev/null 2>&1; rm -rf "$WT"; }
trap cleanup EXIT
applies=false; suite=""; demo_with=""; demo_without=""
if git -C "$WT" apply "$D/patch.diff" 2>/dev/null; then applies=true; fi
if $applies; then
  suite=$(/verif/bin/baseline.sh "$WT" "$WT/_build" 2>&1 | tail -1)
  ( cd "$D" && timeout 600 bash ./run.sh "$WT/include" >/tmp/seedval/$ID.with.log 2>&1 ); demo_with=$?
  ( cd "$D" && timeout 600 bash ./run.sh /repo/include >/tmp/seedval/$ID.without.log 2>&1 ); demo_without=$?
fi
python3 - "$ID" "$applies" "$suite" "$demo_with" "$demo_without" <<'PY'
import json,sys
id_,applies,suite,dw,dwo=sys.argv[1:6]
print(json.dumps({"id":id_,"patch_applies":applies=="true","suite":suite,"suite_ok":"passed=364 failed=0" in suite,
  "demo_exit_with_change":int(dw) if dw else None,"demo_exit_without_change":int(dwo) if dwo else None,
  "confirmed": applies=="true" and "passed=364 failed=0" in suite and dw not in ("","0") and dwo=="0"}))
PY
