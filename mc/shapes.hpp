// E2: exhaustive shape enumerators (all edge sets on n vertices, in ascending and descending insertion
// order; value assignments from a small alphabet; parametric families).
#ifndef VERIF_SHAPES_HPP
#define VERIF_SHAPES_HPP

#include "model.hpp"

namespace verif {

// All ordered (directed) or unordered (undirected) vertex pairs on n vertices.
inline std::vector<std::pair<unsigned, unsigned>> allPairs(unsigned n, bool directed, bool loops) {
    std::vector<std::pair<unsigned, unsigned>> p;
    for (unsigned i = 0; i < n; ++i)
        for (unsigned j = 0; j < n; ++j) {
            if (!directed && j < i) continue;
            if (!loops && i == j) continue;
            p.emplace_back(i, j);
        }
    return p;
}

// Build the real graph and the model for the edge set `mask` over `pairs`, inserting in the given order
// (0: ascending pair order, 1: descending, 2: ascending but undirected pairs named (max,min)).
// `valueOf(k)` gives the model value of the k-th pair (label index / multiplicity / weight x4).
template <class G, class ValueFn> void buildFromMask(unsigned n, const std::vector<std::pair<unsigned, unsigned>> &pairs, unsigned long mask, int order, ValueFn valueOf, G &g, Model &m) {
    using T = Tr<G>;
    using L = typename T::Label;
    g = G(n);
    m = Model();
    m.directed = T::directed;
    m.n = n;
    size_t P = pairs.size();
    for (size_t t = 0; t < P; ++t) {
        size_t k = (order == 1) ? P - 1 - t : t;
        if (!(mask & (1ul << k))) continue;
        unsigned i = pairs[k].first, j = pairs[k].second;
        if (order == 2 && !T::directed) std::swap(i, j);
        long v = valueOf(k);
        if constexpr (T::fam == PLAIN) {
            if constexpr (T::labelled) g.addEdge(i, j, LabelAlpha<L>::value(v));
            else g.addEdge(i, j);
        } else if constexpr (T::fam == MULTI) g.addMultiedge(i, j, (BaseGraph::EdgeMultiplicity)v);
        else g.addEdge(i, j, weightOf(v));
        Ent en;
        en.v = v;
        m.e[m.canon(i, j)] = en;
    }
}

inline std::string maskText(const std::vector<std::pair<unsigned, unsigned>> &pairs, unsigned long mask) {
    std::string s;
    for (size_t k = 0; k < pairs.size(); ++k)
        if (mask & (1ul << k)) s += "(" + std::to_string(pairs[k].first) + "," + std::to_string(pairs[k].second) + ")";
    return s;
}

} // namespace verif

#endif
