// Reference model of the eight BaseGraph graph classes, the operation alphabet, adapters that apply an
// operation to the real object through its PUBLIC API, and the state oracle that compares every public
// observer of the real object with the model's prediction.
#ifndef VERIF_MODEL_HPP
#define VERIF_MODEL_HPP

#include "common.hpp"

#include "BaseGraph/directed_graph.hpp"
#include "BaseGraph/directed_multigraph.hpp"
#include "BaseGraph/directed_weighted_graph.hpp"
#include "BaseGraph/undirected_graph.hpp"
#include "BaseGraph/undirected_multigraph.hpp"
#include "BaseGraph/undirected_weighted_graph.hpp"

#include <climits>
#include <map>
#include <stdexcept>
#include <type_traits>

namespace verif {

using BaseGraph::VertexIndex;

// ------------------------------------------------------------------------------- label types
struct UserLabel { // "user struct with operator== and a default constructor"
    int a = 0;
    std::string s;
    UserLabel() {}
    UserLabel(int a, std::string s) : a(a), s(std::move(s)) {}
    bool operator==(const UserLabel &o) const { return a == o.a && s == o.s; }
};
inline std::ostream &operator<<(std::ostream &o, const UserLabel &u) { return o << "{" << u.a << "," << u.s << "}"; }
inline std::ostream &operator<<(std::ostream &o, const BaseGraph::NoLabel &) { return o << "-"; }
struct EmptyLabel { // a user label class without data members (not NoLabel)
    bool operator==(const EmptyLabel &) const { return true; }
};
inline std::ostream &operator<<(std::ostream &o, const EmptyLabel &) { return o << "e"; }

// Label alphabet: index 0 is the default-constructed label, 1 and 2 are two distinct other values.
template <class L> struct LabelAlpha;
using i64 = long long;
using u64 = unsigned long long;
using u8 = unsigned char;
using i8 = signed char;
// alphaVariant() == 1 selects "unusual" values (extremes, long strings beyond the small-string buffer, control characters).
inline int &alphaVariant() { static int v = 0; return v; }
#define VERIF_LABEL_ALPHA(T, A, B, A2, B2)                                                                   \
    template <> struct LabelAlpha<T> {                                                                       \
        static T value(long i) {                                                                             \
            if (i == 0) return T{};                                                                          \
            if (alphaVariant() == 0) return i == 1 ? static_cast<T>(A) : static_cast<T>(B);                  \
            return i == 1 ? static_cast<T>(A2) : static_cast<T>(B2);                                         \
        }                                                                                                    \
        static constexpr int count = 3;                                                                      \
    };
VERIF_LABEL_ALPHA(int, 7, -3, INT_MAX, INT_MIN)
VERIF_LABEL_ALPHA(unsigned, 5u, 4000000000u, UINT_MAX, 2147483648u)
VERIF_LABEL_ALPHA(double, 1.5, -2.25, 1.7976931348623157e308, -4.9406564584124654e-324)
VERIF_LABEL_ALPHA(float, 1.5f, -2.25f, 3.4028234e38f, -1.4e-45f)
VERIF_LABEL_ALPHA(char, 'x', 'y', '\n', '\xff')
VERIF_LABEL_ALPHA(i64, 0x0102030405060708LL, -2LL, LLONG_MAX, LLONG_MIN)
VERIF_LABEL_ALPHA(u64, 0x0102030405060708ULL, 0xfffefdfcfbfaf9f8ULL, ULLONG_MAX, 0x8000000000000000ULL)
VERIF_LABEL_ALPHA(short, 0x0102, -2, SHRT_MAX, SHRT_MIN)
VERIF_LABEL_ALPHA(u8, 0x7f, 0xfe, 0xff, 0x80)
VERIF_LABEL_ALPHA(i8, 0x7f, -2, -128, 1)
template <> struct LabelAlpha<std::string> {
    static std::string value(long i) {
        if (i == 0) return "";
        if (alphaVariant() == 0) return i == 1 ? "a" : "b c";
        return i == 1 ? "abcdefghijklmnopqrstuvwxyz0123456789ABCDEFGH" : std::string("\xc3\xbc\t\"\\#\x01 end");
    }
    static constexpr int count = 3;
};
template <> struct LabelAlpha<UserLabel> {
    static UserLabel value(long i) {
        if (i == 0) return UserLabel();
        if (alphaVariant() == 0) return i == 1 ? UserLabel(1, "p") : UserLabel(2, "q");
        return i == 1 ? UserLabel(INT_MIN, "a string that does not fit the small-string buffer") : UserLabel(0, "\n");
    }
    static constexpr int count = 3;
};
template <> struct LabelAlpha<EmptyLabel> {
    static EmptyLabel value(long) { return {}; }
    static constexpr int count = 1;
};
template <> struct LabelAlpha<BaseGraph::NoLabel> {
    static BaseGraph::NoLabel value(long) { return {}; }
    static constexpr int count = 1;
};
template <class L> long labelIndex(const L &l) { // -1: not in the alphabet
    for (long i = 0; i < LabelAlpha<L>::count; ++i)
        if (LabelAlpha<L>::value(i) == l) return i;
    return -1;
}
template <class L> std::string labelStr(const L &l) {
    std::ostringstream o;
    o << l;
    return o.str();
}
template <> inline std::string labelStr<char>(const char &c) { return std::to_string((int)c); }
template <> inline std::string labelStr<signed char>(const signed char &c) { return std::to_string((int)c); }
template <> inline std::string labelStr<unsigned char>(const unsigned char &c) { return std::to_string((int)c); }

// ------------------------------------------------------------------------------------ traits
enum Family { PLAIN, MULTI, WEIGHTED };
template <class G> struct Tr;
template <class L> struct Tr<BaseGraph::LabeledDirectedGraph<L>> {
    static constexpr bool directed = true;
    static constexpr Family fam = PLAIN;
    using Label = L;
    static constexpr bool labelled = !std::is_same<L, BaseGraph::NoLabel>::value;
};
template <class L> struct Tr<BaseGraph::LabeledUndirectedGraph<L>> {
    static constexpr bool directed = false;
    static constexpr Family fam = PLAIN;
    using Label = L;
    static constexpr bool labelled = !std::is_same<L, BaseGraph::NoLabel>::value;
};
template <> struct Tr<BaseGraph::DirectedMultigraph> {
    static constexpr bool directed = true;
    static constexpr Family fam = MULTI;
    using Label = BaseGraph::EdgeMultiplicity;
    static constexpr bool labelled = true;
};
template <> struct Tr<BaseGraph::UndirectedMultigraph> {
    static constexpr bool directed = false;
    static constexpr Family fam = MULTI;
    using Label = BaseGraph::EdgeMultiplicity;
    static constexpr bool labelled = true;
};
template <> struct Tr<BaseGraph::DirectedWeightedGraph> {
    static constexpr bool directed = true;
    static constexpr Family fam = WEIGHTED;
    using Label = BaseGraph::EdgeWeight;
    static constexpr bool labelled = true;
};
template <> struct Tr<BaseGraph::UndirectedWeightedGraph> {
    static constexpr bool directed = false;
    static constexpr Family fam = WEIGHTED;
    using Label = BaseGraph::EdgeWeight;
    static constexpr bool labelled = true;
};

// The model's per-edge value `v` is: PLAIN -> index into LabelAlpha; MULTI -> the multiplicity;
// WEIGHTED -> the weight multiplied by 4 (all weights used are multiples of 1/4, so sums are exact).
inline std::string hexd(double d) { // exact, and readable for the dyadic values used here
    char b[64];
    if (!(d > -1e6 && d < 1e6)) snprintf(b, sizeof b, "%a", d); // also inf / nan
    else if (d == (double)(long)d) snprintf(b, sizeof b, "%ld", (long)d);
    else if (d * 4 == (double)(long)(d * 4)) snprintf(b, sizeof b, "%.2f", d);
    else snprintf(b, sizeof b, "%a", d);
    return b;
}
inline double &weightScale() { static double s = 0.25; return s; } // always a power of two
// Optional explicit weight table (weights whose sums are NOT exact, e.g. 0.1, 0.7, 1000000.3): then the
// model value is an index into it, getTotalWeight is not compared and is left out of the key.
inline std::vector<double> &weightTable() { static std::vector<double> t; return t; }
inline double weightOf(long v) { return weightTable().empty() ? (double)v * weightScale() : weightTable()[(size_t)v]; }

// ------------------------------------------------------------------------------------- model
struct Ent {
    int copies = 1;       // > 1 only after forced insertions
    long v = 0;           // see above
    bool vMixed = false;  // copies were inserted with different values: value/totals unspecified (C16)
    bool operator==(const Ent &o) const { return copies == o.copies && v == o.v && vMixed == o.vMixed; }
};
struct Model {
    bool directed = true;
    unsigned n = 0;
    std::map<std::pair<unsigned, unsigned>, Ent> e;
    std::pair<unsigned, unsigned> canon(unsigned i, unsigned j) const {
        return (directed || i <= j) ? std::make_pair(i, j) : std::make_pair(j, i);
    }
    const Ent *find(unsigned i, unsigned j) const {
        auto it = e.find(canon(i, j));
        return it == e.end() ? nullptr : &it->second;
    }
    bool operator==(const Model &o) const { return directed == o.directed && n == o.n && e == o.e; }
    // Same graph up to what is unspecified: values of pairs whose copies carried different values
    // (vMixed is an attribute of the history, not of the concrete state) are not compared.
    bool compatible(const Model &o) const {
        if (directed != o.directed || n != o.n || e.size() != o.e.size()) return false;
        auto a = e.begin();
        auto b = o.e.begin();
        for (; a != e.end(); ++a, ++b) {
            if (a->first != b->first || a->second.copies != b->second.copies) return false;
            if (!a->second.vMixed && !b->second.vMixed && a->second.v != b->second.v) return false;
        }
        return true;
    }
    bool anyDuplicate() const {
        for (auto &p : e)
            if (p.second.copies > 1) return true;
        return false;
    }
    std::string str() const {
        std::ostringstream o;
        o << "n=" << n << " {";
        for (auto &p : e) {
            o << "(" << p.first.first << "," << p.first.second << "):" << p.second.v;
            if (p.second.copies > 1) o << "x" << p.second.copies;
            if (p.second.vMixed) o << "~";
            o << " ";
        }
        o << "}";
        return o.str();
    }
};

// -------------------------------------------------------------------------------- operations
enum OpKind {
    ADD,          // PLAIN: addEdge(i,j,label(v),force) ; WEIGHTED: addEdge(i,j,w,force) ; MULTI: addMultiedge(i,j,v,force)
    ADD_DEFAULT,  // PLAIN: addEdge(i,j,force) (default label) ; MULTI: addEdge(i,j,force) (multiplicity 1)
    ADD_RECIP,    // directed PLAIN: addReciprocalEdge(i,j,label(v),force)
    REMOVE,       // removeEdge(i,j)
    REMOVE_MULTI, // MULTI: removeMultiedge(i,j,v)
    SET_VALUE,    // PLAIN: setEdgeLabel(i,j,label(v)) unforced ; MULTI: setEdgeMultiplicity(i,j,v) ; WEIGHTED: setEdgeWeight
    REMOVE_LOOPS, // removeSelfLoops()
    REMOVE_VERTEX, // removeVertexFromEdgeList(i)
    CLEAR,        // clearEdges()
    RESIZE,       // resize(i)
    DEDUP,        // removeDuplicateEdges()
    OPKIND_COUNT
};
inline const char *opKindName(OpKind k) {
    static const char *n[] = {"ADD", "ADD_DEFAULT", "ADD_RECIP", "REMOVE", "REMOVE_MULTI", "SET_VALUE",
                              "REMOVE_LOOPS", "REMOVE_VERTEX", "CLEAR", "RESIZE", "DEDUP"};
    return n[k];
}
struct Op {
    OpKind k = CLEAR;
    unsigned i = 0, j = 0;
    long v = 0;
    bool force = false;
    std::string encode() const { // machine form, used in replay strings
        std::ostringstream o;
        o << opKindName(k) << ":" << i << ":" << j << ":" << v << ":" << (force ? 1 : 0);
        return o.str();
    }
    static Op decode(const std::string &s) {
        auto p = split(s, ':');
        Op op;
        if (p.size() != 5) throw std::runtime_error("bad op encoding: " + s);
        bool found = false;
        for (int k = 0; k < OPKIND_COUNT; ++k)
            if (p[0] == opKindName((OpKind)k)) { op.k = (OpKind)k; found = true; }
        if (!found) throw std::runtime_error("bad op kind: " + s);
        op.i = (unsigned)strtoul(p[1].c_str(), nullptr, 10);
        op.j = (unsigned)strtoul(p[2].c_str(), nullptr, 10);
        op.v = atol(p[3].c_str());
        op.force = p[4] == "1";
        return op;
    }
};
inline std::string encodeOps(const std::vector<Op> &ops) {
    std::string s;
    for (size_t k = 0; k < ops.size(); ++k) {
        if (k) s += ",";
        s += ops[k].encode();
    }
    return s;
}
inline std::vector<Op> decodeOps(const std::string &s) {
    std::vector<Op> ops;
    if (s.empty()) return ops;
    for (auto &t : split(s, ',')) ops.push_back(Op::decode(t));
    return ops;
}

// Human-readable call text, e.g. "addEdge(0,1,label=7,force=false)".
template <class G> std::string opText(const Op &op) {
    using T = Tr<G>;
    std::ostringstream o;
    auto val = [&]() -> std::string {
        if (T::fam == PLAIN) return "label=" + labelStr(LabelAlpha<typename T::Label>::value(op.v));
        if (T::fam == MULTI) return "multiplicity=" + std::to_string(op.v);
        std::ostringstream w;
        w << "weight=" << hexd(weightOf(op.v));
        return w.str();
    };
    switch (op.k) {
    case ADD:
        o << (T::fam == MULTI ? "addMultiedge(" : "addEdge(") << op.i << "," << op.j << "," << val() << ",force=" << (op.force ? "true" : "false") << ")";
        break;
    case ADD_DEFAULT: o << "addEdge(" << op.i << "," << op.j << ",force=" << (op.force ? "true" : "false") << ")"; break;
    case ADD_RECIP: o << (T::fam == MULTI && op.v != 1 ? "addReciprocalMultiedge(" : "addReciprocalEdge(") << op.i << "," << op.j << "," << val() << ",force=" << (op.force ? "true" : "false") << ")"; break;
    case REMOVE: o << "removeEdge(" << op.i << "," << op.j << ")"; break;
    case REMOVE_MULTI: o << "removeMultiedge(" << op.i << "," << op.j << "," << op.v << ")"; break;
    case SET_VALUE:
        o << (T::fam == PLAIN ? "setEdgeLabel(" : (T::fam == MULTI ? "setEdgeMultiplicity(" : "setEdgeWeight(")) << op.i << "," << op.j << "," << val() << ")";
        break;
    case REMOVE_LOOPS: o << "removeSelfLoops()"; break;
    case REMOVE_VERTEX: o << "removeVertexFromEdgeList(" << op.i << ")"; break;
    case CLEAR: o << "clearEdges()"; break;
    case RESIZE: o << "resize(" << op.i << ")"; break;
    case DEDUP: o << "removeDuplicateEdges()"; break;
    default: o << "?";
    }
    return o.str();
}

enum Outcome { OK, THROW_OUT_OF_RANGE, THROW_INVALID_ARGUMENT, THROW_OTHER_STD, THROW_UNKNOWN };
inline const char *outcomeName(Outcome o) {
    static const char *n[] = {"returned", "std::out_of_range", "std::invalid_argument", "other std::exception", "non-std exception"};
    return n[o];
}

// Classify the exception in flight (call inside a catch(...) block).
inline Outcome classifyCurrentException(std::string *what = nullptr) {
    try {
        throw;
    } catch (const std::out_of_range &e) {
        if (what) *what = e.what();
        return THROW_OUT_OF_RANGE;
    } catch (const std::invalid_argument &e) {
        if (what) *what = e.what();
        return THROW_INVALID_ARGUMENT;
    } catch (const std::exception &e) {
        if (what) *what = e.what();
        return THROW_OTHER_STD;
    } catch (...) {
        return THROW_UNKNOWN;
    }
}

// Apply `op` to the real object through the public API.
template <class G> Outcome applyReal(G &g, const Op &op) {
    using T = Tr<G>;
    using L = typename T::Label;
    try {
        switch (op.k) {
        case ADD:
            if constexpr (T::fam == PLAIN) g.addEdge(op.i, op.j, LabelAlpha<L>::value(op.v), op.force);
            else if constexpr (T::fam == WEIGHTED) g.addEdge(op.i, op.j, weightOf(op.v), op.force);
            else g.addMultiedge(op.i, op.j, (BaseGraph::EdgeMultiplicity)op.v, op.force);
            break;
        case ADD_DEFAULT:
            if constexpr (T::fam == WEIGHTED) throw std::logic_error("ADD_DEFAULT not defined for weighted graphs");
            else g.addEdge(op.i, op.j, op.force);
            break;
        case ADD_RECIP:
            if constexpr (T::fam == PLAIN && T::directed) g.addReciprocalEdge(op.i, op.j, LabelAlpha<L>::value(op.v), op.force);
            else if constexpr (T::fam == MULTI && T::directed) {
                if (op.v == 1) g.addReciprocalEdge(op.i, op.j, op.force);
                else g.addReciprocalMultiedge(op.i, op.j, (BaseGraph::EdgeMultiplicity)op.v, op.force);
            } else throw std::logic_error("ADD_RECIP only for LabeledDirectedGraph / DirectedMultigraph");
            break;
        case REMOVE: g.removeEdge(op.i, op.j); break;
        case REMOVE_MULTI:
            if constexpr (T::fam == MULTI) g.removeMultiedge(op.i, op.j, (BaseGraph::EdgeMultiplicity)op.v);
            else throw std::logic_error("REMOVE_MULTI only for multigraphs");
            break;
        case SET_VALUE:
            if constexpr (T::fam == PLAIN) g.setEdgeLabel(op.i, op.j, LabelAlpha<L>::value(op.v));
            else if constexpr (T::fam == MULTI) g.setEdgeMultiplicity(op.i, op.j, (BaseGraph::EdgeMultiplicity)op.v);
            else g.setEdgeWeight(op.i, op.j, weightOf(op.v));
            break;
        case REMOVE_LOOPS: g.removeSelfLoops(); break;
        case REMOVE_VERTEX: g.removeVertexFromEdgeList(op.i); break;
        case CLEAR: g.clearEdges(); break;
        case RESIZE: g.resize(op.i); break;
        case DEDUP: g.removeDuplicateEdges(); break;
        default: throw std::logic_error("bad op");
        }
    } catch (const std::logic_error &e) {
        if (dynamic_cast<const std::out_of_range *>(&e)) return THROW_OUT_OF_RANGE;
        if (dynamic_cast<const std::invalid_argument *>(&e)) return THROW_INVALID_ARGUMENT;
        if (std::string(e.what()).find("not defined") != std::string::npos || std::string(e.what()).find("only for") != std::string::npos ||
            std::string(e.what()) == "bad op") {
            fprintf(stderr, "HARNESS ERROR: %s\n", e.what());
            abort();
        }
        return THROW_OTHER_STD;
    } catch (const std::exception &) {
        return THROW_OTHER_STD;
    } catch (...) {
        return THROW_UNKNOWN;
    }
    return OK;
}

// Apply `op` to the model.  Only valid (in-range) operations are defined here; the expected outcome of
// the single throwing valid-alphabet operation (unforced setEdgeLabel on an absent edge) is returned.
inline Outcome applyModel(Model &m, const Op &op, Family fam) {
    auto addOne = [&](unsigned i, unsigned j) {
        auto key = m.canon(i, j);
        auto it = m.e.find(key);
        if (fam == MULTI && (op.k == ADD || op.k == ADD_RECIP) && op.v == 0) return; // addMultiedge(...,0) is a no-op
        long v = (fam == MULTI && op.k == ADD_DEFAULT) ? 1 : (op.k == ADD_DEFAULT ? 0 : op.v);
        if (it == m.e.end()) {
            Ent en;
            en.v = v;
            m.e[key] = en;
        } else if (op.force) {
            if (it->second.v != v) it->second.vMixed = true;
            it->second.copies += 1;
            it->second.v = v;
        } else if (fam == MULTI) {
            it->second.v += v; // unforced insertion raises the multiplicity
            if (it->second.copies > 1) it->second.vMixed = true; // ... of a duplicated pair: unspecified
        }
    };
    switch (op.k) {
    case ADD:
    case ADD_DEFAULT: addOne(op.i, op.j); return OK;
    case ADD_RECIP: addOne(op.i, op.j); addOne(op.j, op.i); return OK;
    case REMOVE:
        if (fam == MULTI) {
            auto it = m.e.find(m.canon(op.i, op.j));
            if (it != m.e.end()) {
                if (it->second.v > 1) it->second.v -= 1;
                else m.e.erase(it);
            }
        } else
            m.e.erase(m.canon(op.i, op.j));
        return OK;
    case REMOVE_MULTI: {
        auto it = m.e.find(m.canon(op.i, op.j));
        if (it != m.e.end()) {
            if (it->second.v > op.v) it->second.v -= op.v;
            else m.e.erase(it);
        }
        return OK;
    }
    case SET_VALUE: {
        auto key = m.canon(op.i, op.j);
        auto it = m.e.find(key);
        if (fam == PLAIN) {
            if (it == m.e.end()) return THROW_INVALID_ARGUMENT;
            it->second.v = op.v;
            it->second.vMixed = false;
        } else if (fam == MULTI) {
            if (op.v == 0) { if (it != m.e.end()) m.e.erase(it); }
            else if (it != m.e.end()) { it->second.v = op.v; it->second.vMixed = false; }
            else { Ent en; en.v = op.v; m.e[key] = en; }
        } else {
            if (it != m.e.end()) { it->second.v = op.v; it->second.vMixed = false; }
            else { Ent en; en.v = op.v; m.e[key] = en; }
        }
        return OK;
    }
    case REMOVE_LOOPS:
        for (auto it = m.e.begin(); it != m.e.end();)
            if (it->first.first == it->first.second) it = m.e.erase(it);
            else ++it;
        return OK;
    case REMOVE_VERTEX:
        for (auto it = m.e.begin(); it != m.e.end();)
            if (it->first.first == op.i || it->first.second == op.i) it = m.e.erase(it);
            else ++it;
        return OK;
    case CLEAR: m.e.clear(); return OK;
    case RESIZE:
        if (op.i < m.n) return THROW_INVALID_ARGUMENT;
        m.n = op.i;
        return OK;
    case DEDUP:
        for (auto &p : m.e) p.second.copies = 1;
        return OK;
    default: abort();
    }
}

// Build a real graph from a (duplicate-free) model by unforced insertions in sorted pair order.
template <class G> G fresh(const Model &m) {
    using T = Tr<G>;
    using L = typename T::Label;
    G g(m.n);
    for (auto &p : m.e) {
        unsigned i = p.first.first, j = p.first.second;
        if constexpr (T::fam == PLAIN) {
            if constexpr (T::labelled) g.addEdge(i, j, LabelAlpha<L>::value(p.second.v));
            else g.addEdge(i, j);
        } else if constexpr (T::fam == MULTI) g.addMultiedge(i, j, (BaseGraph::EdgeMultiplicity)p.second.v);
        else g.addEdge(i, j, weightOf(p.second.v));
    }
    return g;
}

// Build a real graph with the class's edge-list constructor from a list of (i, j, value) entries.
template <class G> G constructFromList(const std::vector<std::tuple<unsigned, unsigned, long>> &entries) {
    using T = Tr<G>;
    using L = typename T::Label;
    if constexpr (T::fam == PLAIN && !T::labelled) {
        std::vector<BaseGraph::Edge> c;
        for (auto &e : entries) c.push_back({std::get<0>(e), std::get<1>(e)});
        return G(c);
    } else if constexpr (T::fam == PLAIN) {
        std::list<BaseGraph::LabeledEdge<L>> c;
        for (auto &e : entries) c.push_back(BaseGraph::LabeledEdge<L>{std::get<0>(e), std::get<1>(e), LabelAlpha<L>::value(std::get<2>(e))});
        return G(c);
    } else if constexpr (T::fam == MULTI) {
        std::vector<BaseGraph::LabeledEdge<BaseGraph::EdgeMultiplicity>> c;
        for (auto &e : entries) c.push_back(BaseGraph::LabeledEdge<BaseGraph::EdgeMultiplicity>{std::get<0>(e), std::get<1>(e), (BaseGraph::EdgeMultiplicity)std::get<2>(e)});
        return G(c);
    } else {
        std::list<BaseGraph::LabeledEdge<BaseGraph::EdgeWeight>> c;
        for (auto &e : entries) c.push_back(BaseGraph::LabeledEdge<BaseGraph::EdgeWeight>{std::get<0>(e), std::get<1>(e), weightOf(std::get<2>(e))});
        return G(c);
    }
}

// --------------------------------------------------------------------------- public-API key
// Everything the public API shows about the object, neighbour ORDER included (see DESIGN.md E1).
// `complete` additionally records, for every pair, whether the throwing label getter throws.
// `canonical`: neighbour lists as sorted multisets (for comparisons where the ORDER of a list is not specified,
// e.g. a copy, or a graph built by a constructor, against an independently built equal graph).
template <class G> std::string keyOf(const G &g, bool complete, bool canonical = false) {
    using T = Tr<G>;
    std::ostringstream o;
    size_t n = g.getSize();
    o << n << "|" << g.getEdgeNumber() << "|";
    for (VertexIndex v = 0; v < n; ++v) {
        if (canonical) {
            std::vector<VertexIndex> srt(g.getOutNeighbours(v).begin(), g.getOutNeighbours(v).end());
            std::sort(srt.begin(), srt.end());
            for (auto w : srt) o << w << ",";
        } else
            for (auto w : g.getOutNeighbours(v)) o << w << ",";
        o << ";";
    }
    if constexpr (T::fam == PLAIN) {
        if constexpr (T::labelled) {
            o << "|";
            for (VertexIndex i = 0; i < n; ++i)
                for (VertexIndex j = 0; j < n; ++j) {
                    if (!T::directed && j < i) continue;
                    if (complete) {
                        try {
                            o << labelStr(g.getEdgeLabel(i, j, true)) << ",";
                        } catch (...) { o << "!,"; }
                    } else
                        o << labelStr(g.getEdgeLabel(i, j, false)) << ",";
                }
        }
    } else if constexpr (T::fam == MULTI) {
        o << "|" << g.getTotalEdgeNumber() << "|";
        for (VertexIndex i = 0; i < n; ++i)
            for (VertexIndex j = 0; j < n; ++j) {
                if (!T::directed && j < i) continue;
                o << g.getEdgeMultiplicity(i, j) << ",";
            }
    } else {
        char buf[64];
        snprintf(buf, sizeof buf, "%La", (long double)g.getTotalWeight());
        o << "|" << (weightTable().empty() ? buf : "~") << "|";
        for (VertexIndex i = 0; i < n; ++i)
            for (VertexIndex j = 0; j < n; ++j) {
                if (!T::directed && j < i) continue;
                if (complete) {
                    try {
                        o << hexd(g.getEdgeWeight(i, j, true)) << ",";
                    } catch (...) { o << "!,"; }
                } else
                    o << hexd(g.getEdgeWeight(i, j, false)) << ",";
            }
    }
    return o.str();
}

// ------------------------------------------------------------------------------ clause sink
// A clause is a named piece of a property's statement.  The table says which properties a clause
// belongs to; a check run for property P records only failures of P's clauses.
inline const std::map<std::string, std::set<std::string>> &clauseTable() {
    static const std::map<std::string, std::set<std::string>> t = {
        {"size", {"C01", "C02", "C04", "C05", "C16"}},
        {"edgeNumber", {"C01", "C02", "C04", "C05", "C16"}},
        {"hasEdge", {"C01", "C02", "C04", "C05", "C16"}},
        {"hasEdge.symmetric", {"C02", "C04", "C05"}},
        {"outNeighbours", {"C01", "C02", "C04", "C05", "C16"}},
        {"neighbours.symmetric", {"C02"}},
        {"neighbours.alias", {"C02"}},
        {"outDegree", {"C01", "C04", "C05"}},
        {"inDegree", {"C01", "C04", "C05"}},
        {"degree", {"C02", "C04", "C05"}},
        {"adjacency", {"C01", "C02", "C04", "C05", "C16"}},
        {"edges", {"C01", "C02", "C04", "C05", "C08", "C16"}},
        {"label.get", {"C03"}},
        {"label.nothrow", {"C03"}},
        {"label.hasEdge", {"C03"}},
        {"label.setAbsent", {"C03", "C07"}},
        {"multiplicity", {"C04", "C16"}},
        {"totalEdgeNumber", {"C04", "C16"}},
        {"weight.get", {"C05"}},
        {"weight.nothrow", {"C05"}},
        {"totalWeight", {"C05", "C16"}},
        {"weightMatrix", {"C05"}},
        {"outcome", {"C01", "C02", "C03", "C04", "C05", "C16"}},
        {"eq.fresh", {"C06"}},
        {"eq.reflexive", {"C06"}},
        {"eq.neighbour", {"C06"}},
        {"eq.copy", {"C06"}},
        {"eq.pair", {"C06"}},
        {"eq.independent", {"C06"}},
        {"dedup.twin", {"C16"}},
        {"crash", {"C01", "C02", "C03", "C04", "C05", "C06", "C07", "C08", "C09", "C10", "C13", "C14", "C16", "C17"}},
    };
    return t;
}
struct ClauseSink {
    std::string property; // clauses of other properties are ignored ("" = record everything)
    std::vector<std::pair<std::string, std::string>> failures;
    unsigned long long evaluated = 0;
    bool wants(const std::string &clause) const {
        if (property.empty()) return true;
        auto it = clauseTable().find(clause);
        if (it == clauseTable().end()) return true; // property-specific clause defined by the harness
        return it->second.count(property) != 0;
    }
    void fail(const std::string &clause, const std::string &detail) {
        if (wants(clause)) failures.emplace_back(clause, detail);
    }
    template <class A, class B> void expectEq(const std::string &clause, const A &got, const B &want, const std::string &what) {
        ++evaluated;
        if (!(got == want)) {
            std::ostringstream o;
            o << what << ": got " << got << ", expected " << want;
            fail(clause, o.str());
        }
    }
    void expectTrue(const std::string &clause, bool ok, const std::string &what) {
        ++evaluated;
        if (!ok) fail(clause, what);
    }
};

template <class T> std::string matStr(const std::vector<std::vector<T>> &m) {
    std::ostringstream o;
    o << "[";
    for (auto &r : m) o << vecToStr(r);
    o << "]";
    return o.str();
}
template <> inline std::string matStr<double>(const std::vector<std::vector<double>> &m) {
    std::ostringstream o;
    o << "[";
    for (auto &r : m) {
        o << "[";
        for (size_t k = 0; k < r.size(); ++k) o << (k ? "," : "") << hexd(r[k]);
        o << "]";
    }
    o << "]";
    return o.str();
}

// ------------------------------------------------------------------------------ state oracle
// Compare every public observer of `g` with what the model predicts.  Neighbour lists and edge
// enumerations are compared as multisets; an undirected edge may be reported in either orientation.
template <class G> void checkState(const G &g, const Model &m, ClauseSink &sink) {
    using T = Tr<G>;
    using L = typename T::Label;
    const unsigned n = m.n;
    auto guard = [&](const std::string &clause, const std::string &what, auto &&fn) {
        try {
            fn();
        } catch (...) {
            std::string w;
            Outcome oc = classifyCurrentException(&w);
            ++sink.evaluated;
            sink.fail(clause, what + " threw " + outcomeName(oc) + " (" + w + ")");
        }
    };
    // multiplicity factor by which an edge counts in degrees / adjacency matrix
    auto weightOfEdge = [&](const Ent &en) -> size_t { return T::fam == MULTI ? (size_t)en.copies * (size_t)en.v : (size_t)en.copies; };
    bool anyMixed = false;
    for (auto &p : m.e) anyMixed = anyMixed || p.second.vMixed;

    guard("size", "getSize", [&] { sink.expectEq("size", g.getSize(), (size_t)n, "getSize()"); });
    if (g.getSize() != n) return; // nothing else is meaningful
    size_t expEdges = 0;
    for (auto &p : m.e) expEdges += p.second.copies;
    guard("edgeNumber", "getEdgeNumber", [&] { sink.expectEq("edgeNumber", g.getEdgeNumber(), expEdges, "getEdgeNumber()"); });

    // hasEdge, both argument orders
    for (unsigned i = 0; i < n; ++i)
        for (unsigned j = 0; j < n; ++j)
            guard("hasEdge", "hasEdge", [&] {
                bool want = m.find(i, j) != nullptr;
                bool got = g.hasEdge(i, j);
                std::ostringstream w;
                w << "hasEdge(" << i << "," << j << ")";
                sink.expectEq("hasEdge", got, want, w.str());
                if (!T::directed) sink.expectEq("hasEdge.symmetric", g.hasEdge(j, i), got, w.str() + " vs swapped");
            });

    // neighbour lists as multisets
    std::vector<std::vector<unsigned>> expN(n);
    for (auto &p : m.e)
        for (int c = 0; c < p.second.copies; ++c) {
            expN[p.first.first].push_back(p.first.second);
            if (!T::directed && p.first.first != p.first.second) expN[p.first.second].push_back(p.first.first);
        }
    for (auto &v : expN) std::sort(v.begin(), v.end());
    std::vector<std::vector<unsigned>> gotN(n);
    for (unsigned v = 0; v < n; ++v)
        guard("outNeighbours", "getOutNeighbours", [&] {
            for (auto w : g.getOutNeighbours(v)) gotN[v].push_back(w);
            std::sort(gotN[v].begin(), gotN[v].end());
            sink.expectEq("outNeighbours", vecToStr(gotN[v]), vecToStr(expN[v]), "getOutNeighbours(" + std::to_string(v) + ") as a multiset");
        });
    if constexpr (!T::directed) {
        // j among i's neighbours iff i among j's (as multisets of the real lists)
        for (unsigned i = 0; i < n; ++i)
            for (unsigned j = 0; j < n; ++j) {
                size_t a = std::count(gotN[i].begin(), gotN[i].end(), j), b = std::count(gotN[j].begin(), gotN[j].end(), i);
                sink.expectEq("neighbours.symmetric", a, b, "occurrences of " + std::to_string(j) + " in N(" + std::to_string(i) + ") vs reverse");
            }
        if constexpr (T::fam == PLAIN) {
            for (unsigned v = 0; v < n; ++v)
                guard("neighbours.alias", "getNeighbours", [&] {
                    std::vector<unsigned> a(g.getNeighbours(v).begin(), g.getNeighbours(v).end()), b(g.getOutNeighbours(v).begin(), g.getOutNeighbours(v).end());
                    sink.expectEq("neighbours.alias", vecToStr(a), vecToStr(b), "getNeighbours(" + std::to_string(v) + ") vs getOutNeighbours");
                });
        }
    }

    // edges(): every edge once per copy; undirected in either orientation
    guard("edges", "edges()", [&] {
        std::vector<std::pair<unsigned, unsigned>> got, want;
        for (auto e : g.edges()) got.push_back(m.canon(e.first, e.second));
        for (auto &p : m.e)
            for (int c = 0; c < p.second.copies; ++c) want.push_back(p.first);
        std::sort(got.begin(), got.end());
        std::sort(want.begin(), want.end());
        std::ostringstream a, b;
        for (auto &e : got) a << "(" << e.first << "," << e.second << ")";
        for (auto &e : want) b << "(" << e.first << "," << e.second << ")";
        sink.expectEq("edges", a.str(), b.str(), "edges() as a multiset");
    });

    // degrees and adjacency matrix
    if (!(T::fam == MULTI && anyMixed)) {
        if constexpr (T::directed) {
            std::vector<size_t> outD(n, 0), inD(n, 0);
            std::vector<std::vector<size_t>> A(n, std::vector<size_t>(n, 0));
            for (auto &p : m.e) {
                outD[p.first.first] += weightOfEdge(p.second);
                inD[p.first.second] += weightOfEdge(p.second);
                A[p.first.first][p.first.second] += weightOfEdge(p.second);
            }
            guard("outDegree", "getOutDegrees", [&] { sink.expectEq("outDegree", vecToStr(g.getOutDegrees()), vecToStr(outD), "getOutDegrees()"); });
            guard("inDegree", "getInDegrees", [&] { sink.expectEq("inDegree", vecToStr(g.getInDegrees()), vecToStr(inD), "getInDegrees()"); });
            for (unsigned v = 0; v < n; ++v) {
                guard("outDegree", "getOutDegree", [&] { sink.expectEq("outDegree", g.getOutDegree(v), outD[v], "getOutDegree(" + std::to_string(v) + ")"); });
                guard("inDegree", "getInDegree", [&] { sink.expectEq("inDegree", g.getInDegree(v), inD[v], "getInDegree(" + std::to_string(v) + ")"); });
            }
            guard("adjacency", "getAdjacencyMatrix", [&] { sink.expectEq("adjacency", matStr(g.getAdjacencyMatrix()), matStr(A), "getAdjacencyMatrix()"); });
        } else {
            for (int twice = 0; twice < 2; ++twice) {
                std::vector<size_t> D(n, 0);
                std::vector<std::vector<size_t>> A(n, std::vector<size_t>(n, 0));
                for (auto &p : m.e) {
                    unsigned a = p.first.first, b = p.first.second;
                    size_t w = weightOfEdge(p.second);
                    if (a == b) {
                        D[a] += twice ? 2 * w : w;
                        A[a][a] += twice ? 2 * w : w;
                    } else {
                        D[a] += w; D[b] += w;
                        A[a][b] += w; A[b][a] += w;
                    }
                }
                std::string tag = twice ? "true" : "false";
                guard("degree", "getDegrees", [&] { sink.expectEq("degree", vecToStr(g.getDegrees(twice)), vecToStr(D), "getDegrees(" + tag + ")"); });
                for (unsigned v = 0; v < n; ++v)
                    guard("degree", "getDegree", [&] { sink.expectEq("degree", g.getDegree(v, twice), D[v], "getDegree(" + std::to_string(v) + "," + tag + ")"); });
                guard("adjacency", "getAdjacencyMatrix", [&] { sink.expectEq("adjacency", matStr(g.getAdjacencyMatrix(twice)), matStr(A), "getAdjacencyMatrix(" + tag + ")"); });
                if (twice) {
                    guard("degree", "getDegrees", [&] { sink.expectEq("degree", vecToStr(g.getDegrees()), vecToStr(D), "getDegrees() [default counts loops twice]"); });
                    guard("adjacency", "getAdjacencyMatrix", [&] { sink.expectEq("adjacency", matStr(g.getAdjacencyMatrix()), matStr(A), "getAdjacencyMatrix() [default]"); });
                    for (unsigned v = 0; v < n; ++v)
                        guard("degree", "getDegree", [&] { sink.expectEq("degree", g.getDegree(v), D[v], "getDegree(" + std::to_string(v) + ") [default]"); });
                }
            }
        }
    }

    // per-edge values
    if constexpr (T::fam == PLAIN && T::labelled) {
        for (unsigned i = 0; i < n; ++i)
            for (unsigned j = 0; j < n; ++j) {
                const Ent *en = m.find(i, j);
                std::string pr = "(" + std::to_string(i) + "," + std::to_string(j) + ")";
                if (en && en->vMixed) continue;
                // throwing getter
                ++sink.evaluated;
                try {
                    L got = g.getEdgeLabel(i, j);
                    if (!en) sink.fail("label.get", "getEdgeLabel" + pr + " returned " + labelStr(got) + " for a pair that is not an edge (expected std::invalid_argument)");
                    else if (!(got == LabelAlpha<L>::value(en->v)))
                        sink.fail("label.get", "getEdgeLabel" + pr + ": got " + labelStr(got) + ", expected " + labelStr(LabelAlpha<L>::value(en->v)));
                } catch (const std::invalid_argument &) {
                    if (en) sink.fail("label.get", "getEdgeLabel" + pr + " threw std::invalid_argument for an existing edge");
                } catch (...) {
                    sink.fail("label.get", "getEdgeLabel" + pr + " threw " + std::string(outcomeName(classifyCurrentException())) + (en ? " for an existing edge" : " instead of std::invalid_argument"));
                }
                guard("label.nothrow", "getEdgeLabel(.,.,false)", [&] {
                    L got = g.getEdgeLabel(i, j, false);
                    L want = en ? LabelAlpha<L>::value(en->v) : L();
                    sink.expectTrue("label.nothrow", got == want, "getEdgeLabel" + pr + " nothrow: got " + labelStr(got) + ", expected " + labelStr(want));
                });
                for (long l = 0; l < LabelAlpha<L>::count; ++l)
                    guard("label.hasEdge", "hasEdge(i,j,label)", [&] {
                        bool want = en && en->v == l;
                        sink.expectEq("label.hasEdge", g.hasEdge(i, j, LabelAlpha<L>::value(l)), want, "hasEdge" + pr + " with label " + labelStr(LabelAlpha<L>::value(l)));
                    });
            }
    }
    if constexpr (T::fam == MULTI) {
        size_t total = 0;
        for (auto &p : m.e) total += (size_t)p.second.copies * (size_t)p.second.v;
        if (!anyMixed)
            guard("totalEdgeNumber", "getTotalEdgeNumber", [&] { sink.expectEq("totalEdgeNumber", g.getTotalEdgeNumber(), total, "getTotalEdgeNumber()"); });
        for (unsigned i = 0; i < n; ++i)
            for (unsigned j = 0; j < n; ++j)
                guard("multiplicity", "getEdgeMultiplicity", [&] {
                    const Ent *en = m.find(i, j);
                    if (en && en->vMixed) return;
                    size_t want = en ? (size_t)en->v : 0;
                    sink.expectEq("multiplicity", (size_t)g.getEdgeMultiplicity(i, j), want, "getEdgeMultiplicity(" + std::to_string(i) + "," + std::to_string(j) + ")");
                });
    }
    if constexpr (T::fam == WEIGHTED) {
        long total4 = 0;
        for (auto &p : m.e) total4 += (long)p.second.copies * p.second.v;
        if (!anyMixed && weightTable().empty())
            guard("totalWeight", "getTotalWeight", [&] {
                char gb[64], wb[64];
                snprintf(gb, sizeof gb, "%La", (long double)g.getTotalWeight());
                snprintf(wb, sizeof wb, "%La", (long double)total4 * (long double)weightScale());
                sink.expectTrue("totalWeight", (long double)g.getTotalWeight() == (long double)total4 * (long double)weightScale(),
                                std::string("getTotalWeight(): got ") + gb + ", expected " + wb);
            });
        std::vector<std::vector<double>> W(n, std::vector<double>(n, 0.0));
        bool wmOk = true;
        for (auto &p : m.e) {
            if (p.second.vMixed) wmOk = false;
            W[p.first.first][p.first.second] = weightOf(p.second.v);
            if (!T::directed) W[p.first.second][p.first.first] = weightOf(p.second.v);
        }
        if (wmOk) guard("weightMatrix", "getWeightMatrix", [&] { sink.expectEq("weightMatrix", matStr(g.getWeightMatrix()), matStr(W), "getWeightMatrix()"); });
        for (unsigned i = 0; i < n; ++i)
            for (unsigned j = 0; j < n; ++j) {
                const Ent *en = m.find(i, j);
                if (en && en->vMixed) continue;
                std::string pr = "(" + std::to_string(i) + "," + std::to_string(j) + ")";
                ++sink.evaluated;
                try {
                    double got = g.getEdgeWeight(i, j);
                    if (!en) sink.fail("weight.get", "getEdgeWeight" + pr + " returned " + hexd(got) + " for a pair that is not an edge (expected std::invalid_argument)");
                    else if (got != weightOf(en->v)) sink.fail("weight.get", "getEdgeWeight" + pr + ": got " + hexd(got) + ", expected " + hexd(weightOf(en->v)));
                } catch (const std::invalid_argument &) {
                    if (en) sink.fail("weight.get", "getEdgeWeight" + pr + " threw std::invalid_argument for an existing edge");
                } catch (...) {
                    sink.fail("weight.get", "getEdgeWeight" + pr + " threw " + std::string(outcomeName(classifyCurrentException())));
                }
                guard("weight.nothrow", "getEdgeWeight(.,.,false)", [&] {
                    double want = en ? weightOf(en->v) : 0.0;
                    double got = g.getEdgeWeight(i, j, false);
                    sink.expectTrue("weight.nothrow", got == want, "getEdgeWeight" + pr + " nothrow: got " + hexd(got) + ", expected " + hexd(want));
                });
            }
    }
}

// One-edit neighbours of a model value (one edge toggled, one value changed, one more vertex).
inline std::vector<Model> oneEditNeighbours(const Model &m, Family fam, const std::vector<long> &values) {
    std::vector<Model> out;
    for (unsigned i = 0; i < m.n; ++i)
        for (unsigned j = 0; j < m.n; ++j) {
            if (!m.directed && j < i) continue;
            auto key = std::make_pair(i, j);
            auto it = m.e.find(key);
            if (it == m.e.end()) {
                Model x = m;
                Ent en;
                en.v = values.empty() ? 0 : values[0];
                x.e[key] = en;
                out.push_back(x);
            } else {
                Model x = m;
                x.e.erase(key);
                out.push_back(x);
                for (long v : values)
                    if (v != it->second.v) {
                        Model y = m;
                        y.e[key].v = v;
                        out.push_back(y);
                    }
            }
        }
    Model z = m;
    z.n += 1;
    out.push_back(z);
    (void)fam;
    return out;
}

} // namespace verif

#endif
