// E1: explicit-state breadth-first search over the reachable states of REAL graph objects, in lock-step
// with the reference model (DESIGN.md section 3, E1).  States are the objects themselves (all classes are
// copyable); de-duplication uses a key built from public observers only.
#ifndef VERIF_E1_HPP
#define VERIF_E1_HPP

#include "model.hpp"

#include <deque>
#include <unordered_map>

namespace verif {

struct E1Config {
    std::string name;
    std::vector<unsigned> startSizes{0, 1, 2};
    unsigned maxN = 2;           // resize(n+1) is offered while n < maxN
    int maxDepth = -1;           // -1: run to the fixpoint
    std::vector<long> addValues; // values used by ADD / ADD_RECIP
    std::vector<long> setValues; // values used by SET_VALUE
    std::vector<long> removeMultiValues;
    std::set<OpKind> kinds;
    bool force = false;   // also offer ADD/ADD_DEFAULT with force=true
    int maxCopies = 1;    // transitions that would exceed this many copies of a pair are cut
    long maxValue = 1000; // MULTI: transitions that would push a multiplicity above this are cut
    bool completeKey = true;
    size_t maxStates = 5000000;
    bool allPairs = false;      // C06: compare all pairs of stored states
    size_t allPairsCap = 4000;  // ... among the first this-many states (BFS order)
    bool editNeighbours = false; // C06: one-edit neighbours must compare unequal
    int statelessDepth = 0;     // additionally enumerate ALL histories to this depth without de-duplication
    size_t replayCap = 100000;  // canon-on-replay for at most this many stored states
    int silentSuffix = 0;       // >= 2: from every stored state, all op sequences of this length without observers in between
    size_t silentSuffixStates = 1000000;
    unsigned long long stopAfterViolations = 2000;
    bool ctorStarts = false;             // also check graphs built by the edge-list constructor (small lists)
    bool rejectedProbe = false;          // at every new state: each call with a vertex index outside the graph; if it is
                                         // rejected (throws) the whole state oracle must still hold, also after resize(n+1)
    std::set<long> allowedValues;        // MULTI: if non-empty, transitions leading to a multiplicity outside this set are cut
    std::vector<unsigned> bigSizes;      // non-empty: "scaled" mode - start from structured graphs of these sizes
    bool observeEveryTransition = false; // run the state oracle on the result of every transition, not only on new states
    bool mergeDifferential = false; // one-step differential check whenever a transition merges into a stored state
    bool silentReduced = false; // silent-suffix pass uses one value per value-carrying operation kind
};

template <class G> class Explorer {
  public:
    using T = Tr<G>;
    struct Rec {
        G g;
        Model m;
        int parent;
        Op op;
        int depth;
    };
    E1Config cfg;
    Reporter &rep;
    std::string prop;
    std::vector<Rec> recs;
    std::unordered_map<std::string, int> index;
    std::unordered_map<std::string, G> freshCache;
    std::set<std::string> abstractValues;
    unsigned long long rejectedProbes = 0, ctorStates = 0, mergeSteps = 0, hiddenVariants = 0, transitions = 0, cutTransitions = 0, clauseEvals = 0, throwingSteps = 0, noopSteps = 0;
    // hooks for property-specific checks evaluated on every NEW state / every transition
    std::function<void(const G &, const Model &, ClauseSink &)> extraStateCheck;
    std::function<void(const G &before, const Model &mBefore, const Op &, const G &after, const Model &mAfter, ClauseSink &)> extraStepCheck;

    Explorer(const E1Config &c, Reporter &r, const std::string &property) : cfg(c), rep(r), prop(property) {}

    std::vector<Op> alphabet(unsigned n) const {
        std::vector<Op> ops;
        auto has = [&](OpKind k) { return cfg.kinds.count(k) != 0; };
        auto push = [&](OpKind k, unsigned i, unsigned j, long v, bool f) {
            Op o;
            o.k = k; o.i = i; o.j = j; o.v = v; o.force = f;
            ops.push_back(o);
        };
        std::vector<unsigned> idx;
        if (cfg.bigSizes.empty() || n <= 4) {
            for (unsigned i = 0; i < n; ++i) idx.push_back(i);
        } else { // scaled mode: vertex arguments restricted to the interesting indices
            for (unsigned c : {0u, 1u, n / 2, n - 2, n - 1})
                if (std::find(idx.begin(), idx.end(), c) == idx.end()) idx.push_back(c);
        }
        for (unsigned i : idx)
            for (unsigned j : idx) {
                for (int f = 0; f <= (cfg.force ? 1 : 0); ++f) {
                    if (has(ADD))
                        for (long v : cfg.addValues) push(ADD, i, j, v, f);
                    if (has(ADD_DEFAULT)) push(ADD_DEFAULT, i, j, 0, f);
                    if (has(ADD_RECIP))
                        for (long v : cfg.addValues) push(ADD_RECIP, i, j, v, f);
                }
                if (has(REMOVE)) push(REMOVE, i, j, 0, false);
                if (has(REMOVE_MULTI))
                    for (long v : cfg.removeMultiValues) push(REMOVE_MULTI, i, j, v, false);
                if (has(SET_VALUE))
                    for (long v : cfg.setValues) push(SET_VALUE, i, j, v, false);
            }
        for (unsigned v : idx)
            if (has(REMOVE_VERTEX)) push(REMOVE_VERTEX, v, 0, 0, false);
        if (has(REMOVE_LOOPS)) push(REMOVE_LOOPS, 0, 0, 0, false);
        if (has(CLEAR)) push(CLEAR, 0, 0, 0, false);
        if (has(DEDUP)) push(DEDUP, 0, 0, 0, false);
        if (has(RESIZE)) {
            push(RESIZE, n, 0, 0, false);
            if (n < cfg.maxN) push(RESIZE, n + 1, 0, 0, false);
        }
        return ops;
    }

    // Alphabet of the silent-suffix pass: the full one, or (quick tier) one value per value-carrying kind.
    std::vector<Op> silentAlphabet(unsigned n) const {
        std::vector<Op> all = alphabet(n), out;
        if (!cfg.silentReduced) return all;
        for (auto &op : all) {
            bool keep = true;
            if (op.k == ADD || op.k == ADD_RECIP) keep = cfg.addValues.empty() || op.v == cfg.addValues.back();
            else if (op.k == SET_VALUE) keep = cfg.setValues.empty() || op.v == cfg.setValues.front() || op.v == cfg.setValues.back();
            else if (op.k == REMOVE_MULTI) keep = op.v == 1;
            if (keep) out.push_back(op);
        }
        return out;
    }

    bool withinCaps(const Model &m) const {
        for (auto &p : m.e) {
            if (p.second.copies > cfg.maxCopies) return false;
            if (T::fam == MULTI && p.second.v > cfg.maxValue) return false;
            if (T::fam == MULTI && !cfg.allowedValues.empty() && !cfg.allowedValues.count(p.second.v)) return false;
            // copies of one pair carrying different multiplicities / weights: the totals then depend on
            // the whole history and no property specifies them - such histories are not followed
            if (T::fam != PLAIN && p.second.vMixed) return false;
        }
        return true;
    }

    const G &freshOf(const Model &m) {
        std::string k = m.str();
        auto it = freshCache.find(k);
        if (it == freshCache.end()) it = freshCache.emplace(k, fresh<G>(m)).first;
        return it->second;
    }

    std::vector<Op> historyOf(int s, unsigned *start = nullptr) const {
        std::vector<Op> h;
        while (recs[s].parent >= 0) {
            h.push_back(recs[s].op);
            s = recs[s].parent;
        }
        std::reverse(h.begin(), h.end());
        if (start) *start = recs[s].m.n;
        return h;
    }
    std::string replayArgs(unsigned start, const std::vector<Op> &h) const {
        return "--start " + std::to_string(start) + " --ops " + (h.empty() ? "-" : encodeOps(h));
    }
    std::string historyText(const std::vector<Op> &h) const {
        std::string s;
        for (size_t k = 0; k < h.size(); ++k) {
            if (k) s += "; ";
            s += opText<G>(h[k]);
        }
        return s;
    }

    // Transition clauses: everything that is checked on the object that actually went through the step.
    void stepClauses(const G &g, const Model &m, const Op &op, const G &g2, const Model &m2, Outcome real, Outcome want, ClauseSink &sink) {
        ++sink.evaluated;
        if (real != want)
            sink.fail(want == THROW_INVALID_ARGUMENT ? "label.setAbsent" : "outcome",
                      opText<G>(op) + " " + outcomeName(real) + ", expected: " + outcomeName(want));
        if (want != OK) { // a rejected call must leave the object observably unchanged
            ++sink.evaluated;
            if (keyOf(g2, true) != keyOf(g, true)) sink.fail("label.setAbsent", opText<G>(op) + " was rejected but changed the graph");
        }
        bool clean = true;
        for (auto &p : m2.e) clean = clean && p.second.copies == 1 && !p.second.vMixed;
        if (clean && sink.wants("eq.fresh")) {
            const G &f = freshOf(m2);
            ++sink.evaluated;
            bool a = (g2 == f), b = (f == g2), c = (g2 != f), d = (f != g2);
            if (!(a && b && !c && !d))
                sink.fail("eq.fresh", "graph after history vs. freshly built graph of the same value " + m2.str() + ": (h==f)=" + std::to_string(a) + " (f==h)=" + std::to_string(b) +
                                          " (h!=f)=" + std::to_string(c) + " (f!=h)=" + std::to_string(d));
        }
        if (extraStepCheck) extraStepCheck(g, m, op, g2, m2, sink);
    }

    void newStateClauses(const G &g2, const Model &m2, ClauseSink &sink) {
        checkState(g2, m2, sink);
        bool clean = true;
        for (auto &p : m2.e) clean = clean && p.second.copies == 1 && !p.second.vMixed;
        if (sink.wants("eq.reflexive")) {
            ++sink.evaluated;
            if (!(g2 == g2) || (g2 != g2)) sink.fail("eq.reflexive", "g == g is false (or g != g true) for " + m2.str());
        }
        if (sink.wants("eq.copy")) {
            G c(g2);
            G d(0);
            d = g2;
            ++sink.evaluated;
            if (!(c == g2) || !(g2 == c) || !(d == g2) || (c != g2) || keyOf(c, true, true) != keyOf(g2, true, true) || keyOf(d, true, true) != keyOf(g2, true, true))
                sink.fail("eq.copy", "copy-constructed / copy-assigned graph differs from its source " + m2.str());
        }
        if (cfg.editNeighbours && clean && sink.wants("eq.neighbour")) {
            std::vector<long> vals = cfg.addValues;
            for (long v : cfg.setValues)
                if (std::find(vals.begin(), vals.end(), v) == vals.end()) vals.push_back(v);
            if (T::fam == MULTI) vals.erase(std::remove(vals.begin(), vals.end(), 0L), vals.end());
            if (T::fam == PLAIN && !T::labelled) vals = {0};
            for (auto &x : oneEditNeighbours(m2, T::fam, vals)) {
                const G &f = freshOf(x);
                ++sink.evaluated;
                bool a = (g2 == f), b = (f == g2), c = (g2 != f), d = (f != g2);
                if (a || b || !c || !d)
                    sink.fail("eq.neighbour", "graph " + m2.str() + " compares equal to the different graph " + x.str() + ": (g==x)=" + std::to_string(a) + " (x==g)=" + std::to_string(b));
            }
        }
        if (extraStateCheck) extraStateCheck(g2, m2, sink);
    }

    // Calls of the property's own alphabet with a vertex index outside the graph.
    std::vector<Op> rejectedMenu(unsigned n) const {
        std::vector<Op> ops;
        auto has = [&](OpKind k) { return cfg.kinds.count(k) != 0; };
        auto push = [&](OpKind k, unsigned i, unsigned j, long v, bool f) { Op o; o.k = k; o.i = i; o.j = j; o.v = v; o.force = f; ops.push_back(o); };
        std::vector<std::pair<unsigned, unsigned>> bad = {{n, n}};
        if (n > 0) { bad.push_back({0, n}); bad.push_back({n, 0}); bad.push_back({n - 1, n + 1}); }
        long av = cfg.addValues.empty() ? 1 : cfg.addValues.back(), sv = cfg.setValues.empty() ? av : cfg.setValues.back();
        for (auto &b : bad) {
            if (has(ADD)) { push(ADD, b.first, b.second, av, false); push(ADD, b.first, b.second, av, true); }
            if (has(ADD_DEFAULT)) push(ADD_DEFAULT, b.first, b.second, 0, false);
            if (has(ADD_RECIP)) push(ADD_RECIP, b.first, b.second, av, false);
            if (has(REMOVE)) push(REMOVE, b.first, b.second, 0, false);
            if (has(REMOVE_MULTI)) push(REMOVE_MULTI, b.first, b.second, 1, false);
            if (has(SET_VALUE)) push(SET_VALUE, b.first, b.second, sv, false);
        }
        if (has(REMOVE_VERTEX)) push(REMOVE_VERTEX, n, 0, 0, false);
        return ops;
    }
    // A call that the library REJECTS (it throws) did not happen: every clause of the property still holds for the
    // unchanged value, and still does once the graph has grown so that the offending index exists.  Whether the
    // call must be rejected, and with which exception, is C07's business and is not judged here.
    void probeRejected(const G &g, const Model &m, unsigned start, const std::vector<Op> &h, const Op *onlyOp = nullptr, std::vector<std::pair<std::string, std::string>> *out = nullptr) {
        for (const Op &op : rejectedMenu(m.n)) {
            if (onlyOp && op.encode() != onlyOp->encode()) continue;
            breadcrumb(cfg.name + " rejected-call probe " + op.encode() + " on " + m.str());
            G c(g);
            Outcome real = applyReal(c, op);
            if (real == OK) continue;
            ++rejectedProbes;
            ClauseSink sink;
            sink.property = prop;
            newStateClauses(c, m, sink);
            if (sink.wants("eq.fresh") && (!(c == g) || !(g == c))) sink.fail("eq.fresh", "the graph no longer compares equal to a copy taken before the rejected call");
            std::string what = "after [" + historyText(h) + "] on a graph constructed with " + std::to_string(start) + " vertices, then the REJECTED call " + opText<G>(op) + " (" + outcomeName(real) + ")";
            std::vector<std::pair<std::string, std::string>> fails;
            for (auto &f : sink.failures) fails.emplace_back(f.first, what + ": " + f.second);
            if (fails.empty()) {
                Op rz; rz.k = RESIZE; rz.i = m.n + 2;
                Model m2(m);
                applyModel(m2, rz, T::fam);
                G before(c);
                applyReal(c, rz);
                ClauseSink sink2;
                sink2.property = prop;
                newStateClauses(c, m2, sink2);
                for (auto &f : sink2.failures) fails.emplace_back(f.first, what + " and resize(" + std::to_string(m.n + 2) + "): " + f.second);
            }
            clauseEvals += sink.evaluated;
            if (out) { for (auto &f : fails) out->push_back(f); continue; }
            for (auto &f : fails)
                rep.violation(prop + ":" + cfg.name + ":" + f.first + ":after-rejected-" + opKindName(op.k), f.second, replayArgs(start, h) + " --rejected " + op.encode());
        }
    }

    // Re-execute a history on a fresh object and return the failing clauses of its last step / state.
    std::vector<std::pair<std::string, std::string>> reproduce(unsigned start, const std::vector<Op> &h, bool verbose = false) {
        G g(start);
        Model m;
        m.directed = T::directed;
        m.n = start;
        ClauseSink sink;
        sink.property = prop;
        {
            ClauseSink warm;
            warm.property = prop;
            newStateClauses(g, m, h.empty() ? sink : warm);
        }
        for (size_t k = 0; k < h.size(); ++k) {
            G g2(g);
            Model m2(m);
            Outcome want = applyModel(m2, h[k], T::fam);
            Outcome real = applyReal(g2, h[k]);
            if (verbose) printf("  step %zu: %s -> %s ; model %s ; key %s\n", k + 1, opText<G>(h[k]).c_str(), outcomeName(real), m2.str().c_str(), keyOf(g2, true).c_str());
            if (k + 1 == h.size()) {
                stepClauses(g, m, h[k], g2, m2, real, want, sink);
                newStateClauses(g2, m2, sink);
            } else {
                // the search calls every observer on every object of the lineage: do the same here
                ClauseSink warm;
                warm.property = prop;
                stepClauses(g, m, h[k], g2, m2, real, want, warm);
                newStateClauses(g2, m2, warm);
            }
            g = g2;
            m = m2;
        }
        return sink.failures;
    }

    void report(ClauseSink &sink, unsigned start, const std::vector<Op> &h) {
        if (sink.failures.empty()) return;
        // replay before report: the same history on a fresh object must fail the same clause
        auto again = reproduce(start, h);
        for (auto &f : sink.failures) {
            bool same = false;
            for (auto &a : again) same = same || a.first == f.first;
            std::string lastOp = h.empty() ? "INIT" : opKindName(h.back().k);
            std::string sig = prop + ":" + cfg.name + ":" + f.first + ":" + lastOp;
            if (!same) {
                rep.violation("HARNESS-NONDETERMINISM:" + sig, "clause failed during search but not when the history was replayed: " + f.second, replayArgs(start, h));
                continue;
            }
            rep.violation(sig, "after [" + historyText(h) + "] on a graph constructed with " + std::to_string(start) + " vertices: " + f.second, replayArgs(start, h));
        }
        sink.failures.clear();
    }

    void run() {
        std::deque<int> frontier;
        int maxDepthSeen = 0;
        bool depthCapped = false, stateCapped = false, stoppedEarly = false;
        for (unsigned n0 : cfg.startSizes) {
            breadcrumb(cfg.name + " construct G(" + std::to_string(n0) + ")");
            G g(n0);
            Model m;
            m.directed = T::directed;
            m.n = n0;
            std::string k = keyOf(g, cfg.completeKey);
            if (index.count(k)) continue;
            ClauseSink sink;
            sink.property = prop;
            newStateClauses(g, m, sink);
            clauseEvals += sink.evaluated;
            index[k] = (int)recs.size();
            recs.push_back(Rec{g, m, -1, Op(), 0});
            abstractValues.insert(m.str());
            frontier.push_back((int)recs.size() - 1);
            report(sink, n0, {});
            if (cfg.rejectedProbe) probeRejected(g, m, n0, {});
        }
        // graphs built by the edge-list constructor (every list of <= 2 entries over 2 vertices and the value
        // alphabet, both orientations, repeats included): checked with the whole state oracle, not expanded
        if (cfg.ctorStarts) {
            std::vector<std::tuple<unsigned, unsigned, long>> items;
            std::vector<long> vals = cfg.addValues;
            if (T::fam == MULTI) vals.erase(std::remove(vals.begin(), vals.end(), 0L), vals.end());
            if (vals.empty()) vals = {0};
            for (unsigned i = 0; i < 2; ++i)
                for (unsigned j = 0; j < 2; ++j)
                    for (long v : vals) items.emplace_back(i, j, v);
            std::vector<std::vector<std::tuple<unsigned, unsigned, long>>> lists = {{}};
            for (auto &a : items) {
                lists.push_back({a});
                for (auto &b : items) lists.push_back({a, b});
            }
            for (auto &lst : lists) {
                Model m;
                m.directed = T::directed;
                unsigned mx = 0;
                for (auto &e : lst) mx = std::max(mx, std::max(std::get<0>(e), std::get<1>(e)) + 1);
                m.n = mx;
                std::string enc;
                for (auto &e : lst) {
                    Op o;
                    o.k = ADD; o.i = std::get<0>(e); o.j = std::get<1>(e); o.v = std::get<2>(e);
                    applyModel(m, o, T::fam);
                    enc += std::to_string(o.i) + ":" + std::to_string(o.j) + ":" + std::to_string(o.v) + ",";
                }
                if (!withinCaps(m)) continue;
                breadcrumb(cfg.name + " edge-list constructor " + enc);
                ClauseSink sink;
                sink.property = prop;
                try {
                    G g = constructFromList<G>(lst);
                    ++ctorStates;
                    newStateClauses(g, m, sink);
                    if (sink.wants("eq.fresh")) {
                        const G &f = freshOf(m);
                        if (!(g == f) || !(f == g)) sink.fail("eq.fresh", "graph built by the edge-list constructor differs from the one built by one-at-a-time insertion, value " + m.str());
                    }
                } catch (...) {
                    sink.fail("outcome", std::string("edge-list constructor threw ") + outcomeName(classifyCurrentException()));
                }
                clauseEvals += sink.evaluated;
                for (auto &f : sink.failures)
                    rep.violation(prop + ":" + cfg.name + ":" + f.first + ":CTOR", "graph constructed from the edge list [" + enc + "] (entries i:j:value): " + f.second, "--ctor " + (enc.empty() ? std::string("-") : enc));
            }
        }
        // scaled mode: structured graphs of larger sizes, built through the public API as ordinary histories
        for (unsigned n0 : cfg.bigSizes) {
            for (int family = 0; family < 11; ++family) {
                std::vector<Op> build;
                long vcount = 0;
                auto addE = [&](unsigned i, unsigned j) {
                    Op o;
                    o.k = ADD; o.i = i; o.j = j;
                    o.v = cfg.addValues.empty() ? 0 : cfg.addValues[(size_t)(vcount++) % cfg.addValues.size()];
                    if (T::fam == MULTI && o.v == 0) o.v = 1;
                    build.push_back(o);
                };
                if (family == 1) for (unsigned i = 0; i + 1 < n0; ++i) addE(i, i + 1);
                if (family == 2) { for (unsigned i = 0; i < n0; ++i) addE(i, (i + 1) % n0); addE(n0 - 1, n0 - 1); }
                if (family == 3) for (unsigned i = 0; i + 1 < n0; ++i) addE(n0 - 1, i);
                if (family == 4) for (unsigned i = n0 - 1; i >= 1; --i) addE(i, 0);
                if (family == 5) { if (n0 > 9) continue; for (unsigned i = 0; i < n0; ++i) for (unsigned j = 0; j < n0; ++j) addE(i, j); }
                if (family == 6) for (unsigned i = 0; i < n0; ++i) for (unsigned j = 0; j < n0; ++j) if ((i * 7 + j * 3) % 5 == 0) addE(i, j);
                if (family == 7) for (unsigned i = n0; i-- > 0;) for (unsigned j = n0; j-- > 0;) if ((i + j) % 3 == 0) addE(i, j);
                // rebuilt after a bulk removal: whatever a bulk removal leaves behind meets a large neighbourhood
                auto bulk = [&](OpKind k, unsigned v) { Op o; o.k = k; o.i = v; build.push_back(o); };
                if (family == 8) { for (unsigned i = 1; i < n0; ++i) addE(0, i); bulk(REMOVE_VERTEX, 0); for (unsigned i = 2; i < n0; ++i) addE(0, i); }
                if (family == 9) { for (unsigned i = 0; i + 1 < n0; ++i) { addE(n0 - 1, i); addE(i, i); } bulk(REMOVE_LOOPS, 0); bulk(CLEAR, 0); for (unsigned i = 1; i < n0; ++i) addE(i, 0); addE(n0 - 1, 1); }
                if (family == 10) { for (unsigned i = 0; i < n0; ++i) addE(i, (i * 5 + 1) % n0); bulk(REMOVE_VERTEX, n0 / 2); for (unsigned i = 0; i + 1 < n0; ++i) addE(n0 / 2, i == n0 / 2 ? n0 - 1 : i); }
                breadcrumb(cfg.name + " scaled start n=" + std::to_string(n0) + " family " + std::to_string(family));
                G g(n0);
                Model m;
                m.directed = T::directed;
                m.n = n0;
                int parent = -1;
                // root record of the chain (not indexed, not expanded)
                recs.push_back(Rec{g, m, -1, Op(), 0});
                parent = (int)recs.size() - 1;
                for (auto &o : build) {
                    applyModel(m, o, T::fam);
                    applyReal(g, o);
                    recs.push_back(Rec{g, m, parent, o, 0});
                    parent = (int)recs.size() - 1;
                }
                std::string k = keyOf(g, cfg.completeKey);
                if (index.count(k)) continue;
                ClauseSink sink;
                sink.property = prop;
                newStateClauses(g, m, sink);
                clauseEvals += sink.evaluated;
                index[k] = parent;
                abstractValues.insert(m.str());
                frontier.push_back(parent);
                if (!sink.failures.empty()) {
                    unsigned start;
                    auto h = historyOf(parent, &start);
                    report(sink, start, h);
                }
            }
        }
        while (!frontier.empty()) {
            if (clock_().expired()) { rep.cap("deadline reached with " + std::to_string(frontier.size()) + " states unexpanded"); break; }
            if (rep.violations() > cfg.stopAfterViolations) { // the verdict is decided; a broken implementation may have an unbounded state space
                rep.cap(cfg.name + ": search stopped after more than " + std::to_string(cfg.stopAfterViolations) + " clause failures");
                stoppedEarly = true;
                break;
            }
            int s = frontier.front();
            frontier.pop_front();
            if (cfg.maxDepth >= 0 && recs[s].depth >= cfg.maxDepth) { depthCapped = true; continue; }
            const std::string keyBefore = keyOf(recs[s].g, cfg.completeKey);
            auto ops = alphabet(recs[s].m.n);
            for (const Op &op : ops) {
                Model m2(recs[s].m);
                Outcome want = applyModel(m2, op, T::fam);
                if (!withinCaps(m2)) { ++cutTransitions; continue; }
                breadcrumb(cfg.name + " state#" + std::to_string(s) + " " + recs[s].m.str() + " op " + op.encode());
                G g2(recs[s].g);
                Outcome real = applyReal(g2, op);
                ++transitions;
                digestNum((unsigned long long)real);
                if (want != OK) ++throwingSteps;
                if (m2 == recs[s].m) ++noopSteps;
                ClauseSink sink;
                sink.property = prop;
                stepClauses(recs[s].g, recs[s].m, op, g2, m2, real, want, sink);
                std::string k = keyOf(g2, cfg.completeKey);
                digest(k);
                // Hidden-state guard: two objects with the same public-API key that do not compare equal
                // (operator== also sees label entries no getter shows) are kept as DIFFERENT states, so
                // that state a getter cannot see is still expanded.  At most 4 variants per key.
                for (int variant = 0; variant < 4; ++variant) {
                    auto probe = index.find(k);
                    if (probe == index.end()) break;
                    const G &other = recs[probe->second].g;
                    if ((other == g2) && (g2 == other)) break;
                    k += "#";
                    ++hiddenVariants;
                }
                auto it = index.find(k);
                bool isNew = it == index.end();
                if (isNew || cfg.observeEveryTransition) {
                    // (observeEveryTransition: the object that went through THIS history is observed even
                    // when an indistinguishable state is already stored - state that neither the key nor ==
                    // shows, e.g. a stale cache, is then still confronted with every observer)
                    newStateClauses(g2, m2, sink);
                } else if (!(recs[it->second].m == m2)) {
                    // same concrete state reached with a different abstract value: the observers were
                    // validated against the first value, so compare them with this one as well.
                    checkState(g2, m2, sink);
                }
                clauseEvals += sink.evaluated;
                if (!sink.failures.empty()) {
                    unsigned start;
                    auto h = historyOf(s, &start);
                    h.push_back(op);
                    report(sink, start, h);
                } else if (isNew && cfg.rejectedProbe) {
                    unsigned start;
                    auto h = historyOf(s, &start);
                    h.push_back(op);
                    probeRejected(g2, m2, start, h);
                }
                if (!isNew && cfg.mergeDifferential && it->second != s) {
                    // Differential oracle for merged states: the object reached by THIS history and the
                    // stored representative have the same public-API key and compare equal, so they must
                    // have the same futures.  One more step of every operation on both; a difference means
                    // state that neither the key nor == can see.  The arriving object is judged by the model.
                    for (const Op &op2 : silentAlphabet(m2.n)) {
                        Model m3(m2);
                        applyModel(m3, op2, T::fam);
                        if (!withinCaps(m3)) continue;
                        G a(g2), b(recs[it->second].g);
                        applyReal(a, op2);
                        applyReal(b, op2);
                        ++mergeSteps;
                        if (keyOf(a, true) == keyOf(b, true)) continue;
                        ClauseSink sk;
                        sk.property = prop;
                        checkState(a, m3, sk);
                        unsigned start;
                        auto h = historyOf(s, &start);
                        h.push_back(op);
                        h.push_back(op2);
                        for (auto &f : sk.failures)
                            rep.violation(prop + ":" + cfg.name + ":" + f.first + ":merge-differential",
                                          "after [" + historyText(h) + "] on a graph constructed with " + std::to_string(start) + " vertices (the state before the last call is indistinguishable, by every observer and ==, from one reached by a shorter history, yet behaves differently): " + f.second,
                                          replayArgs(start, h) + " --observed-prefix " + std::to_string(h.size() - 1));
                    }
                }
                if (isNew) {
                    if (recs.size() >= cfg.maxStates) { stateCapped = true; continue; }
                    index[k] = (int)recs.size();
                    recs.push_back(Rec{g2, m2, s, op, recs[s].depth + 1});
                    abstractValues.insert(m2.str());
                    maxDepthSeen = std::max(maxDepthSeen, recs[s].depth + 1);
                    frontier.push_back((int)recs.size() - 1);
                }
            }
            // the stored object must not have been affected by the operations applied to its copies
            if (keyOf(recs[s].g, cfg.completeKey) != keyBefore) {
                unsigned start;
                auto h = historyOf(s, &start);
                rep.violation(prop + ":" + cfg.name + ":eq.independent", "a graph changed when operations were applied to COPIES of it; state " + recs[s].m.str(), replayArgs(start, h));
            }
        }
        if (depthCapped) rep.cap(cfg.name + ": depth cap " + std::to_string(cfg.maxDepth));
        if (stateCapped) rep.cap(cfg.name + ": state cap " + std::to_string(cfg.maxStates));

        // canon-on-replay: the shortest history of every stored state, re-executed from scratch, must
        // reach the same concrete key and the same model value
        size_t replayed = 0;
        for (size_t s = 0; s < recs.size() && replayed < cfg.replayCap; ++s, ++replayed) {
            unsigned start;
            auto h = historyOf((int)s, &start);
            breadcrumb(cfg.name + " canon-on-replay state#" + std::to_string(s));
            G g(start);
            Model m;
            m.directed = T::directed;
            m.n = start;
            for (auto &op : h) { applyModel(m, op, T::fam); applyReal(g, op); }
            if (keyOf(g, cfg.completeKey) != keyOf(recs[s].g, cfg.completeKey) || !(m == recs[s].m))
                rep.violation("HARNESS-NONDETERMINISM:" + prop + ":" + cfg.name + ":replay", "stored state differs from the state reached by replaying its history", replayArgs(start, h));
        }
        if (recs.size() > cfg.replayCap) rep.info["note:" + cfg.name] = jstr("canon-on-replay self-check limited to the first " + std::to_string(cfg.replayCap) + " stored states");

        // C06: all pairs of stored states
        unsigned long long pairs = 0;
        if (cfg.allPairs && (prop.empty() || prop == "C06") && !stoppedEarly) {
            size_t lim = std::min(recs.size(), cfg.allPairsCap);
            if (recs.size() > lim) rep.cap(cfg.name + ": all-pairs comparison limited to the first " + std::to_string(lim) + " states");
            for (size_t a = 0; a < lim; ++a) {
                bool cleanA = true;
                for (auto &p : recs[a].m.e) cleanA = cleanA && p.second.copies == 1 && !p.second.vMixed;
                if (!cleanA) continue;
                breadcrumb(cfg.name + " all-pairs row " + std::to_string(a));
                for (size_t b = a; b < lim; ++b) {
                    bool cleanB = true;
                    for (auto &p : recs[b].m.e) cleanB = cleanB && p.second.copies == 1 && !p.second.vMixed;
                    if (!cleanB) continue;
                    bool want = recs[a].m == recs[b].m;
                    bool ab = recs[a].g == recs[b].g, ba = recs[b].g == recs[a].g, nab = recs[a].g != recs[b].g;
                    ++pairs;
                    if (ab != want || ba != want || nab == want) {
                        unsigned sa, sb;
                        auto ha = historyOf((int)a, &sa);
                        auto hb = historyOf((int)b, &sb);
                        rep.violation(prop + ":" + cfg.name + ":eq.pair",
                                      "g built by [" + historyText(ha) + "] from " + std::to_string(sa) + " vertices (value " + recs[a].m.str() + ") and h built by [" + historyText(hb) + "] from " +
                                          std::to_string(sb) + " vertices (value " + recs[b].m.str() + "): g==h is " + std::to_string(ab) + ", h==g is " + std::to_string(ba) + ", g!=h is " +
                                          std::to_string(nab) + ", expected equality " + std::to_string(want),
                                      replayArgs(sa, ha) + " --ops2 " + (hb.empty() ? "-" : encodeOps(hb)) + " --start2 " + std::to_string(sb));
                    }
                }
            }
        }

        // stateless pass: every history up to the given depth, no de-duplication
        unsigned long long histories = 0;
        if (cfg.statelessDepth > 0 && cfg.maxDepth < 0 && !stateCapped && !stoppedEarly && !clock_().expired()) {
            std::vector<Op> h;
            std::function<void(const G &, const Model &, int, unsigned)> dfs = [&](const G &g, const Model &m, int depth, unsigned start) {
                ++histories;
                // No observer has been called on `g` or any of its ancestors: observe a COPY, so that the
                // lineage stays silent for the longer histories that extend this one.
                {
                    G probe(g);
                    ClauseSink sink;
                    sink.property = prop;
                    checkState(probe, m, sink);
                    clauseEvals += sink.evaluated;
                    if (!sink.failures.empty()) {
                        for (auto &f : sink.failures)
                            rep.violation(prop + ":" + cfg.name + ":" + f.first + ":silent-history",
                                          "after the history [" + historyText(h) + "] executed WITHOUT any observer call in between, on a graph constructed with " + std::to_string(start) + " vertices: " + f.second,
                                          replayArgs(start, h) + " --silent 1");
                    }
                    std::string k = keyOf(probe, cfg.completeKey);
                    auto it = index.find(k);
                    if (it == index.end() && sink.failures.empty())
                        rep.violation("HARNESS-NONDETERMINISM:" + prop + ":" + cfg.name + ":stateless", "a silent history reaches a public-API key the stateful fixpoint search never recorded", replayArgs(start, h));
                }
                if (depth == cfg.statelessDepth) return;
                for (const Op &op : alphabet(m.n)) {
                    Model m2(m);
                    applyModel(m2, op, T::fam);
                    if (!withinCaps(m2)) continue;
                    G g2(g);
                    applyReal(g2, op);
                    h.push_back(op);
                    dfs(g2, m2, depth + 1, start);
                    h.pop_back();
                }
            };
            for (unsigned n0 : cfg.startSizes) {
                if (n0 > 2) continue;
                breadcrumb(cfg.name + " stateless pass from " + std::to_string(n0));
                G g(n0);
                Model m;
                m.directed = T::directed;
                m.n = n0;
                dfs(g, m, 0, n0);
            }
        }

        // silent-suffix pass: from every stored state (on whose lineage every observer has been called
        // after every step) apply K operations WITHOUT observing in between, then observe everything.
        // This is what exposes a cache that is filled by an observer and not invalidated by a mutator.
        unsigned long long silentRuns = 0;
        if (cfg.silentSuffix >= 2 && !stoppedEarly) {
            size_t lim = std::min(recs.size(), cfg.silentSuffixStates);
            if (recs.size() > lim) rep.cap(cfg.name + ": silent-suffix pass limited to the first " + std::to_string(lim) + " states (BFS order)");
            std::vector<Op> suffix;
            std::function<void(const G &, const Model &, int, size_t)> go = [&](const G &g, const Model &m, int k, size_t s) {
                for (const Op &op : silentAlphabet(m.n)) {
                    Model m2(m);
                    applyModel(m2, op, T::fam);
                    if (!withinCaps(m2)) continue;
                    G g2(g);
                    applyReal(g2, op);
                    suffix.push_back(op);
                    if (k + 1 >= 2) { // length-1 suffixes are what the search itself checks
                        ++silentRuns;
                        ClauseSink sink;
                        sink.property = prop;
                        G probe(g2);
                        checkState(probe, m2, sink);
                        clauseEvals += sink.evaluated;
                        if (!sink.failures.empty()) {
                            unsigned start;
                            auto h = historyOf((int)s, &start);
                            std::string pre = historyText(h);
                            size_t observedLen = h.size();
                            for (auto &o : suffix) h.push_back(o);
                            for (auto &f : sink.failures)
                                rep.violation(prop + ":" + cfg.name + ":" + f.first + ":silent-suffix",
                                              "all observers called after each of [" + pre + "], then [" + historyText(suffix) + "] executed without observer calls, on a graph constructed with " +
                                                  std::to_string(start) + " vertices: " + f.second,
                                              replayArgs(start, h) + " --observed-prefix " + std::to_string(observedLen));
                        }
                    }
                    if (k + 1 < cfg.silentSuffix) go(g2, m2, k + 1, s);
                    suffix.pop_back();
                }
            };
            for (size_t s = 0; s < lim; ++s) {
                if (clock_().expired()) { rep.cap(cfg.name + ": deadline reached during the silent-suffix pass at state " + std::to_string(s)); break; }
                if (rep.violations() > cfg.stopAfterViolations) { rep.cap(cfg.name + ": silent-suffix pass stopped after more than " + std::to_string(cfg.stopAfterViolations) + " clause failures"); break; }
                breadcrumb(cfg.name + " silent-suffix from state#" + std::to_string(s));
                go(recs[s].g, recs[s].m, 0, s);
            }
        }
        rep.count("silent_suffix_runs", (long long)silentRuns);
        rep.count("merge_differential_steps", (long long)mergeSteps);

        // history-dependent states: concrete key differs from the canonical fresh-built graph
        unsigned long long histDep = 0;
        for (auto &r : recs) {
            bool clean = true;
            for (auto &p : r.m.e) clean = clean && p.second.copies == 1 && !p.second.vMixed;
            if (!clean || keyOf(r.g, cfg.completeKey) != keyOf(freshOf(r.m), cfg.completeKey)) ++histDep;
        }

        rep.count("states", (long long)recs.size());
        rep.count("transitions", (long long)transitions);
        rep.count("cut_transitions", (long long)cutTransitions);
        rep.count("clause_evaluations", (long long)clauseEvals);
        rep.count("abstract_values", (long long)abstractValues.size());
        rep.count("history_dependent_states", (long long)histDep);
        rep.count("traces_validated", (long long)replayed);
        rep.count("rejected_steps", (long long)throwingSteps);
        rep.count("hidden_state_variants", (long long)hiddenVariants);
        rep.count("constructor_built_states", (long long)ctorStates);
        rep.count("rejected_call_probes", (long long)rejectedProbes);
        rep.count("noop_steps", (long long)noopSteps);
        rep.count("pairs_compared", (long long)pairs);
        rep.count("stateless_histories", (long long)histories);
        JObj ci;
        ci.num("max_depth_reached", maxDepthSeen).num("depth_cap", cfg.maxDepth).num("max_vertices", cfg.maxN).num("max_copies", cfg.maxCopies).num("alphabet_size_at_max_n", (long long)alphabet(cfg.maxN).size());
        ci.boolean("fixpoint", cfg.maxDepth < 0 && !stateCapped && !clock_().expired());
        ci.num("cut_transitions", (long long)cutTransitions);
        ci.num("states", (long long)recs.size());
        rep.info[cfg.name] = ci.render();
        // samples: the deepest state and two others, with full history and final key
        std::vector<size_t> pick;
        if (!recs.empty()) {
            pick.push_back(recs.size() - 1);
            pick.push_back(recs.size() / 2);
            pick.push_back(recs.size() / 3);
        }
        for (size_t s : pick) {
            unsigned start;
            auto h = historyOf((int)s, &start);
            JObj o;
            o.str("config", cfg.name).num("start_vertices", start).str("history", historyText(h)).str("model_value", recs[s].m.str()).str("public_api_key", keyOf(recs[s].g, true));
            rep.sample(o.render(), 12);
        }
    }
};

// Replay entry point shared by all E1-based harnesses: re-executes one history without the explorer.
template <class G> int replayHistory(const E1Config &cfg, const std::string &prop, const Args &args, std::function<void(const G &, const Model &, ClauseSink &)> stateHook = nullptr) {
    Reporter dummy;
    Explorer<G> ex(cfg, dummy, prop);
    ex.extraStateCheck = stateHook;
    unsigned start = (unsigned)args.getInt("start", 0);
    std::string enc = args.get("ops", "-");
    auto h = decodeOps(enc == "-" ? "" : enc);
    printf("replaying on %s (property %s), graph constructed with %u vertices\n", cfg.name.c_str(), prop.c_str(), start);
    if (args.has("ctor")) {
        std::vector<std::tuple<unsigned, unsigned, long>> lst;
        std::string enc = args.get("ctor", "-");
        Model m;
        m.directed = Tr<G>::directed;
        if (enc != "-")
            for (auto &t : split(enc, ',')) {
                auto q = split(t, ':');
                if (q.size() != 3) continue;
                lst.emplace_back((unsigned)atol(q[0].c_str()), (unsigned)atol(q[1].c_str()), atol(q[2].c_str()));
                Op o;
                o.k = ADD; o.i = std::get<0>(lst.back()); o.j = std::get<1>(lst.back()); o.v = std::get<2>(lst.back());
                m.n = std::max(m.n, std::max(o.i, o.j) + 1);
                applyModel(m, o, Tr<G>::fam);
            }
        G g = constructFromList<G>(lst);
        ClauseSink sink;
        sink.property = prop;
        checkState(g, m, sink);
        if (sink.wants("eq.fresh") && !(g == fresh<G>(m))) sink.fail("eq.fresh", "constructor-built graph != one-at-a-time graph");
        printf("constructed from [%s]: key %s, model %s\n", enc.c_str(), keyOf(g, true).c_str(), m.str().c_str());
        for (auto &f : sink.failures) printf("REPRODUCED clause %s: %s\n", f.first.c_str(), f.second.c_str());
        return sink.failures.empty() ? 0 : 1;
    }
    if (args.has("rejected")) {
        Op bad = Op::decode(args.get("rejected", ""));
        int verdict[2];
        for (int round = 0; round < 2; ++round) {
            G g(start);
            Model m;
            m.directed = Tr<G>::directed;
            m.n = start;
            { ClauseSink warm; warm.property = prop; ex.newStateClauses(g, m, warm); }
            for (auto &op : h) {
                applyModel(m, op, Tr<G>::fam);
                Outcome oc = applyReal(g, op);
                if (round == 0) printf("  step: %s -> %s\n", opText<G>(op).c_str(), outcomeName(oc));
                ClauseSink warm; warm.property = prop; ex.newStateClauses(g, m, warm);
            }
            std::vector<std::pair<std::string, std::string>> fails;
            ex.probeRejected(g, m, start, h, &bad, &fails);
            if (round == 0)
                for (auto &f : fails) printf("REPRODUCED clause %s: %s\n", f.first.c_str(), f.second.c_str());
            verdict[round] = fails.empty() ? 0 : 1;
        }
        if (verdict[0] != verdict[1]) { printf("REPLAY DIVERGED\n"); return 2; }
        return verdict[0];
    }
    if (args.has("silent") || args.has("observed-prefix")) {
        // observers are called after each of the first `observed-prefix` steps only, then at the end
        size_t observed = args.has("silent") ? 0 : (size_t)args.getInt("observed-prefix", 0);
        int verdict[2];
        for (int round = 0; round < 2; ++round) {
            G g(start);
            Model m;
            m.directed = Tr<G>::directed;
            m.n = start;
            ClauseSink sink;
            sink.property = prop;
            if (observed > 0 || h.empty()) { ClauseSink warm; checkState(g, m, warm); }
            for (size_t k = 0; k < h.size(); ++k) {
                applyModel(m, h[k], Tr<G>::fam);
                Outcome oc = applyReal(g, h[k]);
                if (round == 0) printf("  step %zu: %s -> %s%s\n", k + 1, opText<G>(h[k]).c_str(), outcomeName(oc), k + 1 <= observed ? "  [all observers called]" : "");
                if (k + 1 <= observed) { ClauseSink warm; checkState(g, m, warm); }
            }
            checkState(g, m, sink);
            if (round == 0)
                for (auto &f : sink.failures) printf("REPRODUCED clause %s: %s\n", f.first.c_str(), f.second.c_str());
            verdict[round] = sink.failures.empty() ? 0 : 1;
        }
        if (verdict[0] != verdict[1]) { printf("REPLAY DIVERGED\n"); return 2; }
        return verdict[0];
    }
    auto f1 = ex.reproduce(start, h, true);
    auto f2 = ex.reproduce(start, h, false);
    if (f1 != f2) {
        printf("REPLAY DIVERGED between two executions of the same history\n");
        return 2;
    }
    if (args.has("ops2")) { // pair violation
        std::string enc2 = args.get("ops2", "-");
        auto h2 = decodeOps(enc2 == "-" ? "" : enc2);
        unsigned start2 = (unsigned)args.getInt("start2", 0);
        G a(start), b(start2);
        Model ma, mb;
        ma.directed = mb.directed = Tr<G>::directed;
        ma.n = start; mb.n = start2;
        for (auto &op : h) { applyReal(a, op); applyModel(ma, op, Tr<G>::fam); }
        for (auto &op : h2) { applyReal(b, op); applyModel(mb, op, Tr<G>::fam); }
        bool want = ma == mb;
        printf("pair: values %s / %s ; g==h %d, h==g %d, g!=h %d, expected equal %d\n", ma.str().c_str(), mb.str().c_str(), a == b, b == a, a != b, want);
        if ((a == b) != want || (b == a) != want || (a != b) == want) {
            printf("REPRODUCED clause eq.pair\n");
            return 1;
        }
        return 0;
    }
    for (auto &f : f1) printf("REPRODUCED clause %s: %s\n", f.first.c_str(), f.second.c_str());
    return f1.empty() ? 0 : 1;
}

} // namespace verif

#endif
