/* E5: cooperative scheduler that owns every thread switch of a harness.
 *
 * Compiled WITHOUT sanitizer instrumentation and using raw futex system calls for the baton, so that
 * ThreadSanitizer sees no happens-before edge between harness threads other than pthread_create/join:
 * executions are serialised in time, yet two unsynchronised conflicting accesses are still reported.
 *
 * Switch points: thread begin/end, explicit sch_point() calls, entry of every function compiled with
 * -finstrument-functions (restricted by the build to functions defined in BaseGraph headers), and the
 * interposed pthread_mutex_lock/unlock (a lock is modelled as blocking: trylock + yield).
 *
 * A schedule is the sequence of choices made at the switch points.  sch_reset() installs a prefix to be
 * replayed; after the prefix the default policy applies: keep running the current thread while it is
 * enabled, otherwise the lowest enabled id.  Every point (running thread, enabled mask, choice) is
 * recorded for the explorer. */
#define _GNU_SOURCE
#include <dlfcn.h>
#include <errno.h>
#include <limits.h>
#include <linux/futex.h>
#include <pthread.h>
#include <stdio.h>
#include <stdlib.h>
#include <string.h>
#include <sys/syscall.h>
#include <unistd.h>

#define SCH_MAXT 8
#define SCH_MAXPOINTS 8192

enum { MODE_FREE = 0, MODE_COARSE = 1, MODE_FINE = 2 };

static int g_mode = MODE_FREE;
static int g_nthreads = 0;
static volatile int g_turn = -2;           /* id of the thread that may run; -1 = nobody yet */
static int g_finished[SCH_MAXT];
static int g_spinning[SCH_MAXT];           /* waiting for a mutex held by somebody else */
static const int *g_prefix = 0;
static int g_prefix_len = 0;
static int g_npoints = 0;
static int g_overflow = 0;
static int g_error = 0;                    /* 1: replay divergence, 2: deadlock */
static int g_tr_running[SCH_MAXPOINTS], g_tr_mask[SCH_MAXPOINTS], g_tr_choice[SCH_MAXPOINTS];
static __thread int t_id = -1;
static __thread int t_inside = 0;          /* re-entrancy guard for the instrumentation hook */

static long futex(volatile int *addr, int op, int val) { return syscall(SYS_futex, addr, op, val, NULL, NULL, 0); }

static void wait_for_turn(int me) {
    for (;;) {
        int cur = __atomic_load_n(&g_turn, __ATOMIC_ACQUIRE);
        if (cur == me) return;
        futex(&g_turn, FUTEX_WAIT, cur);
    }
}
static void give_turn(int next) {
    __atomic_store_n(&g_turn, next, __ATOMIC_RELEASE);
    futex(&g_turn, FUTEX_WAKE, INT_MAX);
}

static int enabled_mask(void) {
    int m = 0;
    for (int i = 0; i < g_nthreads; ++i)
        if (!g_finished[i]) m |= 1 << i;
    return m;
}

/* decide who runs next; `me` is the deciding thread (-1: main at start) */
static int decide(int me) {
    int mask = enabled_mask();
    if (mask == 0) return -1;
    int runnable = 0; /* enabled and not known to be spinning on a lock */
    for (int i = 0; i < g_nthreads; ++i)
        if ((mask >> i & 1) && !g_spinning[i]) runnable |= 1 << i;
    if (runnable == 0) { /* every unfinished thread waits for a lock another one holds: a deadlock of the code under test */
        static const char msg[] = "\nHARNESS-DEADLOCK: every unfinished thread is blocked on a lock held by another thread\n";
        (void)!write(1, msg, sizeof msg - 1);
        _exit(98);
    }
    int choice;
    int idx = g_npoints;
    if (idx < g_prefix_len) {
        choice = g_prefix[idx];
        if (choice < 0 || choice >= g_nthreads || !(mask >> choice & 1)) { g_error = 1; choice = __builtin_ctz(runnable); }
    } else if (me >= 0 && (runnable >> me & 1)) {
        choice = me;
    } else {
        choice = __builtin_ctz(runnable);
    }
    if (idx < SCH_MAXPOINTS) {
        g_tr_running[idx] = (me >= 0 && (runnable >> me & 1)) ? me : -1;
        g_tr_mask[idx] = runnable;
        g_tr_choice[idx] = choice;
    } else
        g_overflow = 1;
    g_npoints = idx + 1;
    return choice;
}

void sch_reset(int nthreads, const int *prefix, int prefix_len, int mode) {
    g_mode = mode;
    g_nthreads = nthreads;
    g_prefix = prefix;
    g_prefix_len = prefix_len;
    g_npoints = 0;
    g_overflow = 0;
    g_error = 0;
    memset(g_finished, 0, sizeof g_finished);
    memset(g_spinning, 0, sizeof g_spinning);
    __atomic_store_n(&g_turn, -1, __ATOMIC_RELEASE);
}

/* main thread, after all workers were created: make the first decision */
void sch_start(void) {
    if (g_mode == MODE_FREE) return;
    int c = decide(-1);
    give_turn(c);
}

void sch_thread_begin(int id) {
    t_id = id;
    if (g_mode == MODE_FREE) return;
    wait_for_turn(id);
}

void sch_point(void) {
    int me = t_id;
    if (me < 0 || g_mode == MODE_FREE) return;
    int c = decide(me);
    if (c != me) {
        give_turn(c);
        wait_for_turn(me);
    }
}

void sch_thread_end(int id) {
    if (g_mode == MODE_FREE) { t_id = -1; return; }
    g_finished[id] = 1;
    int c = decide(id);
    t_id = -1;
    if (c >= 0) give_turn(c);
    else give_turn(-1);
}

int sch_npoints(void) { return g_npoints < SCH_MAXPOINTS ? g_npoints : SCH_MAXPOINTS; }
int sch_overflow(void) { return g_overflow; }
int sch_error(void) { return g_error; }
void sch_trace(int i, int *running, int *mask, int *choice) {
    *running = g_tr_running[i];
    *mask = g_tr_mask[i];
    *choice = g_tr_choice[i];
}

/* ---- compiler instrumentation: entry of every instrumented (BaseGraph) function is a switch point */
void __cyg_profile_func_enter(void *fn, void *site) __attribute__((no_instrument_function));
void __cyg_profile_func_exit(void *fn, void *site) __attribute__((no_instrument_function));
void __cyg_profile_func_enter(void *fn, void *site) {
    (void)fn; (void)site;
    if (g_mode != MODE_FINE || t_id < 0 || t_inside) return;
    t_inside = 1;
    sch_point();
    t_inside = 0;
}
void __cyg_profile_func_exit(void *fn, void *site) { (void)fn; (void)site; }

/* ---- pthread mutex interposition: synchronisation operations are switch points, a lock blocks */
typedef int (*mutex_fn)(pthread_mutex_t *);
extern int __interceptor_pthread_mutex_trylock(pthread_mutex_t *) __attribute__((weak));
extern int __interceptor_pthread_mutex_lock(pthread_mutex_t *) __attribute__((weak));
extern int __interceptor_pthread_mutex_unlock(pthread_mutex_t *) __attribute__((weak));
static mutex_fn real_lock, real_trylock, real_unlock;
static void resolve(void) {
    if (real_lock) return;
    real_trylock = __interceptor_pthread_mutex_trylock ? __interceptor_pthread_mutex_trylock : (mutex_fn)dlsym(RTLD_NEXT, "pthread_mutex_trylock");
    real_unlock = __interceptor_pthread_mutex_unlock ? __interceptor_pthread_mutex_unlock : (mutex_fn)dlsym(RTLD_NEXT, "pthread_mutex_unlock");
    real_lock = __interceptor_pthread_mutex_lock ? __interceptor_pthread_mutex_lock : (mutex_fn)dlsym(RTLD_NEXT, "pthread_mutex_lock");
}
int pthread_mutex_lock(pthread_mutex_t *m) {
    resolve();
    if (t_id < 0 || g_mode == MODE_FREE || t_inside) return real_lock(m);
    t_inside = 1;
    sch_point();
    for (;;) {
        int r = real_trylock(m);
        if (r != EBUSY) { t_inside = 0; return r; }
        g_spinning[t_id] = 1;
        sch_point();
        g_spinning[t_id] = 0;
        if (g_error == 2) { t_inside = 0; return real_lock(m); } /* everybody is blocked: let the real lock (and the watchdog) decide */
    }
}
int pthread_mutex_unlock(pthread_mutex_t *m) {
    resolve();
    int r = real_unlock(m);
    /* whoever was waiting for a lock may try again: nobody is known to be blocked any more */
    for (int i = 0; i < SCH_MAXT; ++i) g_spinning[i] = 0;
    if (t_id >= 0 && g_mode != MODE_FREE && !t_inside) {
        t_inside = 1;
        sch_point();
        t_inside = 0;
    }
    return r;
}
