// Common support for all /verif harnesses: argument parsing, JSON output, violation reporter,
// watchdog/breadcrumb, deadline.  No dependency on BaseGraph.
#ifndef VERIF_COMMON_HPP
#define VERIF_COMMON_HPP

#include <algorithm>
#include <chrono>
#include <csignal>
#include <cstdio>
#include <cstdlib>
#include <cstring>
#include <functional>
#include <map>
#include <set>
#include <sstream>
#include <string>
#include <sys/time.h>
#include <unistd.h>
#include <vector>

namespace verif {

// ---------------------------------------------------------------------------------------- JSON
inline std::string jsonEscape(const std::string &s) {
    std::string o;
    o.reserve(s.size() + 2);
    for (unsigned char c : s) {
        switch (c) {
        case '"': o += "\\\""; break;
        case '\\': o += "\\\\"; break;
        case '\n': o += "\\n"; break;
        case '\r': o += "\\r"; break;
        case '\t': o += "\\t"; break;
        default:
            if (c < 0x20 || c >= 0x7f) {
                char b[8];
                snprintf(b, sizeof b, "\\u%04x", c);
                o += b;
            } else
                o += (char)c;
        }
    }
    return o;
}
inline std::string jstr(const std::string &s) { return "\"" + jsonEscape(s) + "\""; }

// A tiny JSON object builder (values are pre-rendered JSON text).
struct JObj {
    std::vector<std::pair<std::string, std::string>> kv;
    JObj &raw(const std::string &k, const std::string &v) { kv.emplace_back(k, v); return *this; }
    JObj &str(const std::string &k, const std::string &v) { return raw(k, jstr(v)); }
    JObj &num(const std::string &k, long long v) { return raw(k, std::to_string(v)); }
    JObj &unum(const std::string &k, unsigned long long v) { return raw(k, std::to_string(v)); }
    JObj &boolean(const std::string &k, bool v) { return raw(k, v ? "true" : "false"); }
    JObj &dbl(const std::string &k, double v) {
        char b[64];
        snprintf(b, sizeof b, "%.6g", v);
        return raw(k, b);
    }
    std::string render() const {
        std::string o = "{";
        for (size_t i = 0; i < kv.size(); ++i) {
            if (i) o += ",";
            o += jstr(kv[i].first) + ":" + kv[i].second;
        }
        return o + "}";
    }
};
inline std::string jarr(const std::vector<std::string> &rendered) {
    std::string o = "[";
    for (size_t i = 0; i < rendered.size(); ++i) {
        if (i) o += ",";
        o += rendered[i];
    }
    return o + "]";
}
inline std::string jstrarr(const std::vector<std::string> &v) {
    std::vector<std::string> r;
    for (auto &s : v) r.push_back(jstr(s));
    return jarr(r);
}

// ---------------------------------------------------------------------------------------- args
struct Args {
    std::map<std::string, std::string> kv;
    Args(int argc, char **argv) {
        for (int i = 1; i < argc; ++i) {
            std::string a = argv[i];
            if (a.rfind("--", 0) == 0) {
                std::string k = a.substr(2);
                if (i + 1 < argc && std::string(argv[i + 1]).rfind("--", 0) != 0)
                    kv[k] = argv[++i];
                else
                    kv[k] = "1";
            }
        }
    }
    bool has(const std::string &k) const { return kv.count(k) != 0; }
    std::string get(const std::string &k, const std::string &d = "") const {
        auto it = kv.find(k);
        return it == kv.end() ? d : it->second;
    }
    long getInt(const std::string &k, long d) const {
        auto it = kv.find(k);
        return it == kv.end() ? d : atol(it->second.c_str());
    }
};

inline std::vector<std::string> split(const std::string &s, char sep) {
    std::vector<std::string> out;
    std::string cur;
    for (char c : s) {
        if (c == sep) { out.push_back(cur); cur.clear(); }
        else cur += c;
    }
    out.push_back(cur);
    return out;
}

// ------------------------------------------------------------------------- deadline / watchdog
struct Clock {
    std::chrono::steady_clock::time_point t0 = std::chrono::steady_clock::now();
    double deadlineS = 1e18;
    double elapsed() const {
        return std::chrono::duration<double>(std::chrono::steady_clock::now() - t0).count();
    }
    bool expired() const { return elapsed() > deadlineS; }
};
inline Clock &clock_() { static Clock c; return c; }

// Breadcrumb: what the harness is about to execute; printed by the watchdog / crash handler so the
// driver can name the case that hung or crashed.
inline char *breadcrumbBuf() { static char b[4096]; return b; }
inline volatile unsigned long &progressCounter() { static volatile unsigned long p = 0; return p; }
inline void progressTick() { __atomic_fetch_add(&progressCounter(), 1UL, __ATOMIC_RELAXED); }
inline void breadcrumb(const std::string &s) {
    strncpy(breadcrumbBuf(), s.c_str(), 4095);
    breadcrumbBuf()[4095] = 0;
    __atomic_fetch_add(&progressCounter(), 1UL, __ATOMIC_RELAXED);
}
inline int &watchdogPeriod() { static int p = 30; return p; }
// The watchdog counts the CPU time of this process (ITIMER_PROF), not wall-clock time: a worker that is merely
// starved by other load on the machine is not "making no progress"; code that loops forever burns CPU and is
// still caught.  (A worker that blocks without using CPU is ended by the driver's wall-clock job limit, which
// is reported as a cap, never as a violation.)
inline void armWatchdog(int periodS) {
    struct itimerval tv;
    memset(&tv, 0, sizeof tv);
    tv.it_value.tv_sec = periodS;
    setitimer(ITIMER_PROF, &tv, nullptr);
}
inline void watchdogHandler(int) {
    static unsigned long last = (unsigned long)-1;
    unsigned long now = __atomic_load_n(&progressCounter(), __ATOMIC_RELAXED);
    if (last == now) {
        const char *m = "\nHARNESS-HANG breadcrumb: ";
        (void)!write(1, m, strlen(m));
        (void)!write(1, breadcrumbBuf(), strlen(breadcrumbBuf()));
        (void)!write(1, "\n", 1);
        _exit(97);
    }
    last = now;
    armWatchdog(watchdogPeriod());
}
inline void crashHandler(int sig) {
    const char *m = "\nHARNESS-CRASH signal breadcrumb: ";
    (void)!write(1, m, strlen(m));
    (void)!write(1, breadcrumbBuf(), strlen(breadcrumbBuf()));
    (void)!write(1, "\n", 1);
    signal(sig, SIG_DFL);
    raise(sig);
}
inline void installWatchdog(int periodS = 30) {
    watchdogPeriod() = periodS;
    signal(SIGPROF, watchdogHandler);
    armWatchdog(periodS);
    signal(SIGSEGV, crashHandler);
    signal(SIGBUS, crashHandler);
    signal(SIGFPE, crashHandler);
    signal(SIGABRT, crashHandler);
    signal(SIGILL, crashHandler);
}

// ------------------------------------------------------------------------------------ digest
// Running FNV-1a hash of every observation a harness makes (state keys, search results, file bytes).
// C17 compares it across build configurations: results must not depend on compiler, optimisation
// level or standard-library checking mode.
inline unsigned long long &digestState() { static unsigned long long h = 1469598103934665603ULL; return h; }
inline void digest(const std::string &s) {
    unsigned long long &h = digestState();
    for (unsigned char c : s) { h ^= c; h *= 1099511628211ULL; }
    h ^= 0xffu;
    h *= 1099511628211ULL;
}
inline void digestNum(unsigned long long v) {
    unsigned long long &h = digestState();
    for (int k = 0; k < 8; ++k) { h ^= (v >> (8 * k)) & 0xffu; h *= 1099511628211ULL; }
}

// ---------------------------------------------------------------------------------- reporter
// Collects violations (deduplicated by signature, a few full examples kept per signature), samples
// and counters, and writes the worker's JSON result file.
struct Violation {
    std::string signature; // stable identity of the failing clause (used for known findings)
    std::string detail;    // human-readable: expected vs got
    std::string replay;    // argument string that re-executes this case with --replay
};
struct Reporter {
    std::string property, config, tier;
    std::map<std::string, std::vector<Violation>> bySig;
    std::map<std::string, unsigned long long> sigCount;
    std::map<std::string, long long> counters;
    std::map<std::string, std::string> info; // pre-rendered JSON values
    std::vector<std::string> samples;        // pre-rendered JSON values
    size_t keepPerSig = 2;
    bool exhaustive = true;
    std::vector<std::string> capsHit;

    void violation(const std::string &sig, const std::string &detail, const std::string &replay) {
        auto &n = sigCount[sig];
        ++n;
        auto &v = bySig[sig];
        if (v.size() < keepPerSig) v.push_back({sig, detail, replay});
    }
    unsigned long long violations() const {
        unsigned long long n = 0;
        for (auto &p : sigCount) n += p.second;
        return n;
    }
    void count(const std::string &k, long long d = 1) { counters[k] += d; }
    void cap(const std::string &what) {
        exhaustive = false;
        if (std::find(capsHit.begin(), capsHit.end(), what) == capsHit.end()) capsHit.push_back(what);
    }
    void sample(const std::string &renderedJson, size_t maxSamples = 6) {
        if (samples.size() < maxSamples) samples.push_back(renderedJson);
    }
    std::string render() const {
        JObj o;
        o.str("property", property).str("config", config).str("tier", tier);
        o.boolean("exhaustive", exhaustive);
        o.raw("caps_hit", jstrarr(capsHit));
        JObj c;
        for (auto &p : counters) c.num(p.first, p.second);
        o.raw("counters", c.render());
        JObj inf;
        for (auto &p : info) inf.raw(p.first, p.second);
        o.raw("info", inf.render());
        o.raw("samples", jarr(samples));
        std::vector<std::string> vs;
        for (auto &p : bySig)
            for (auto &v : p.second) {
                JObj j;
                j.str("signature", v.signature).str("detail", v.detail).str("replay", v.replay);
                j.unum("occurrences", sigCount.at(p.first));
                vs.push_back(j.render());
            }
        o.raw("violations", jarr(vs));
        o.unum("violation_count", violations());
        {
            char b[32];
            snprintf(b, sizeof b, "%016llx", digestState());
            o.str("digest", b);
        }
        o.dbl("wall_s", clock_().elapsed());
        return o.render();
    }
    bool write(const std::string &path) const {
        FILE *f = fopen(path.c_str(), "w");
        if (!f) return false;
        std::string s = render();
        fwrite(s.data(), 1, s.size(), f);
        fputc('\n', f);
        fclose(f);
        return true;
    }
};

template <class T>
std::string vecToStr(const std::vector<T> &v) {
    std::ostringstream o;
    o << "[";
    for (size_t i = 0; i < v.size(); ++i) {
        if (i) o << ",";
        o << v[i];
    }
    o << "]";
    return o.str();
}

} // namespace verif

#endif
